import GoBk.Model.Heap
import GoBk.Model.Ecies
import GoBk.Model.Bip39
import GoBk.Model.Bip32
import GoBk.Model.Der
/-
  GoBk.Model.HeapFns — heap-level models (C16): how the exported functions of go-bk handle the
  memory of their arguments.  Each model is transcribed statement by statement from the CURRENT
  source in /repo (the Go statement is quoted next to each step), takes its slice arguments in a heap
  and returns the heap afterwards together with its results.  Values that Go computes into fresh
  memory by library calls (hashes, big.Int arithmetic, curve operations) are taken from the value-level
  models; everything that touches a slice the function received or allocated goes through `Heap`.

  The three `_old` variants transcribe the code BEFORE the `fix:` commits d6fe302, 412d0f6, 2a64865.
-/
namespace GoBk.HeapFns
open GoBk Bytes Heap Spec

/-! ### bec/ciphering.go -/

/-- `addPKCSPadding(src)` (current code). -/
def addPKCSPadding (h : Heap) (src : Slice) : HRes Slice :=
  let padding := 16 - src.len % 16                              -- padding := aes.BlockSize - len(src)%aes.BlockSize
  let padtext := List.replicate padding (UInt8.ofNat padding)   -- padtext := bytes.Repeat([]byte{byte(padding)}, padding)
  let r0 := h.alloc 0 (src.len + padding)                       -- padded := make([]byte, 0, len(src)+padding)
  let r1 := r0.heap.append r0.val (r0.heap.read src)            -- padded = append(padded, src...)
  r1.heap.append r1.val padtext                                 -- return append(padded, padtext...)

/-- `addPKCSPadding(src)` before commit d6fe302: `return append(src, padtext...)`. -/
def addPKCSPadding_old (h : Heap) (src : Slice) : HRes Slice :=
  let padding := 16 - src.len % 16
  let padtext := List.replicate padding (UInt8.ofNat padding)
  h.append src padtext

/-- `removePKCSPadding(src)`: a sub-slice of its argument. -/
def removePKCSPadding (h : Heap) (src : Slice) : HRes (Option Slice) :=
  let length := src.len
  let padLength := (h.readAt src (length - 1)).toNat           -- padLength := int(src[length-1])
  if padLength > 16 || length < 16 then ⟨h, none⟩
  else ⟨h, some (reslice src 0 (length - padLength))⟩           -- return src[:length-padLength], nil

/-- `Encrypt(pubkey, in)` with the tape of random reads, over the padding function `pad`; `in` is
only read (by `pad`), all other writes go to `out`. -/
def encryptWith (pad : Heap → Slice → HRes Slice) (pr : Prims) (h : Heap) (pub : Pt) (inp : Slice)
    (t : Rng.Tape) : HRes (Option Slice) :=
  match Rng.generateKey t with                                  -- ephemeral, err := NewPrivateKey(S256())
  | none => ⟨h, none⟩
  | some (d, ephPub, t) =>
    let ecdhKey := Ecies.sharedSecret d pub                     -- GenerateSharedSecret: own make([]byte,0,32)
    let derived := pr.sha512 ecdhKey                            -- derivedKey := sha512.Sum512(ecdhKey) (array value)
    let keyE := derived.take 32
    let keyM := derived.drop 32
    let rp := pad h inp                                         -- paddedIn := addPKCSPadding(in)
    let paddedIn := rp.val
    let n := 16 + 70 + paddedIn.len + 32
    let ro := rp.heap.alloc n n                                 -- out := make([]byte, aes.BlockSize+70+len(paddedIn)+sha256.Size)
    let out := ro.val
    let iv := reslice out 0 16                                  -- iv := out[:aes.BlockSize]
    match Rng.readFull 16 t with                                -- io.ReadFull(rand.Reader, iv)
    | none => ⟨ro.heap, none⟩
    | some (ivb, _) =>
      let h1 := (ro.heap.copyInto iv ivb).heap
      let pb := Ecdsa.serUncompressed ephPub                    -- pb := ephemeral.PubKey().SerialiseUncompressed()
      let h2 := (h1.copyInto (reslice out 16 20) (Gen.ciphCurveBytes ++ Gen.ciphCoordLength)).heap
      let h3 := (h2.copyInto (reslice out 20 52) ((pb.drop 1).take 32)).heap   -- copy(out[offset:offset+32], pb[1:33])
      let h4 := (h3.copyInto (reslice out 52 54) Gen.ciphCoordLength).heap     -- copy(out[offset:offset+2], ciphCoordLength[:])
      let h5 := (h4.copyInto (reslice out 54 86) (pb.drop 33)).heap            -- copy(out[offset:offset+32], pb[33:])
      -- mode.CryptBlocks(out[offset:len(out)-sha256.Size], paddedIn)
      let h6 := h5.cryptBlocks (reslice out 86 (out.len - 32)) (pr.cbcEnc keyE (h5.read iv) (h5.read paddedIn))
      let mac := pr.hmac256 keyM (h6.read (reslice out 0 (out.len - 32)))      -- hm.Write(out[:len(out)-sha256.Size])
      let h7 := (h6.copyInto (reslice out (out.len - 32) out.len) mac).heap    -- copy(out[len(out)-sha256.Size:], hm.Sum(nil))
      ⟨h7, some out⟩

/-- `Encrypt(pubkey, in)` (current code). -/
def encrypt := encryptWith addPKCSPadding
/-- `Encrypt(pubkey, in)` before commit d6fe302. -/
def encrypt_old := encryptWith addPKCSPadding_old

/-- `Decrypt(priv, in)`: `in` is only read; `pb` and `plaintext` are the function's own arrays; the
result is a sub-slice of `plaintext`. -/
def decrypt (pr : Prims) (h : Heap) (d : Nat) (inp : Slice) : HRes (Option Slice) :=
  if inp.len < 16 + 70 + 16 + 32 then ⟨h, none⟩ else
  let iv := reslice inp 0 16                                    -- iv := in[:aes.BlockSize]
  if h.read (reslice inp 16 18) != Gen.ciphCurveBytes then ⟨h, none⟩ else
  if h.read (reslice inp 18 20) != Gen.ciphCoordLength then ⟨h, none⟩ else
  let xBytes := reslice inp 20 52                               -- xBytes := in[offset : offset+32]
  if h.read (reslice inp 52 54) != Gen.ciphCoordLength then ⟨h, none⟩ else
  let yBytes := reslice inp 54 86
  let rpb := h.alloc 65 65                                      -- pb := make([]byte, 65)
  let pb := rpb.val
  let h1 := rpb.heap.store pb 0 0x04                            -- pb[0] = byte(0x04)
  let h2 := (h1.copyInto (reslice pb 1 33) (h1.read xBytes)).heap   -- copy(pb[1:33], xBytes)
  let h3 := (h2.copyInto (reslice pb 33 65) (h2.read yBytes)).heap  -- copy(pb[33:], yBytes)
  match Ecdsa.parsePubKey (h3.read pb) with                     -- ParsePubKey(pb, S256())
  | none => ⟨h3, none⟩
  | some pub =>
    if Int.tmod ((inp.len : Int) - 16 - 86 - 32) 16 != 0 then ⟨h3, none⟩ else
    let messageMAC := reslice inp (inp.len - 32) inp.len        -- messageMAC := in[len(in)-sha256.Size:]
    let ecdhKey := Ecies.sharedSecret d pub
    let derived := pr.sha512 ecdhKey
    let keyE := derived.take 32
    let keyM := derived.drop 32
    let expected := pr.hmac256 keyM (h3.read (reslice inp 0 (inp.len - 32)))
    if h3.read messageMAC != expected then ⟨h3, none⟩ else
    let rpt := h3.alloc (inp.len - 86 - 32) (inp.len - 86 - 32) -- plaintext := make([]byte, len(in)-offset-sha256.Size)
    let plaintext := rpt.val
    -- mode.CryptBlocks(plaintext, in[offset:len(in)-sha256.Size])
    let h4 := rpt.heap.cryptBlocks plaintext
                (pr.cbcDec keyE (rpt.heap.read iv) (rpt.heap.read (reslice inp 86 (inp.len - 32))))
    removePKCSPadding h4 plaintext                              -- return removePKCSPadding(plaintext)

/-! ### bip39/bip39.go -/

/-- the entropy handling of `Mnemonic` (current code):
`entropy = append(append(make([]byte, 0, len(entropy)+1), entropy...), sha256.Sum256(entropy)[0])`. -/
def mnemonicEntropy (pr : Prims) (h : Heap) (entropy : Slice) : HRes (Option Slice) :=
  let ent := entropy.len * 8
  if ent % 32 != 0 || ent < 128 || ent > 256 then ⟨h, none⟩ else
  let r0 := h.alloc 0 (entropy.len + 1)
  let r1 := r0.heap.append r0.val (r0.heap.read entropy)
  let cs := (pr.sha256 (r1.heap.read entropy)).headD 0
  let r2 := r1.heap.append r1.val [cs]
  ⟨r2.heap, some r2.val⟩

/-- before commit 412d0f6: `entropy = append(entropy, sha256.Sum256(entropy)[0])`. -/
def mnemonicEntropy_old (pr : Prims) (h : Heap) (entropy : Slice) : HRes (Option Slice) :=
  let ent := entropy.len * 8
  if ent % 32 != 0 || ent < 128 || ent > 256 then ⟨h, none⟩ else
  let cs := (pr.sha256 (h.read entropy)).headD 0
  let r := h.append entropy [cs]
  ⟨r.heap, some r.val⟩

/-- the rest of `Mnemonic` works on strings (immutable) built from the extended entropy. -/
def sentenceOf (pr : Prims) (e' : Bytes) (ms : Nat) (pass : Bytes) : Bytes × Bytes :=
  let bits := e'.flatMap Bip39.bitsOfByte
  let idxs := Bip39.groups (ms / 11) bits
  let words := idxs.map Bip39.wordAt
  let m := Bytes.ofString "" ++ (List.intercalate [32] words)
  (m, pr.pbkdf2_512 m (Bip39.mnemonicSalt pass) 2048 64)

/-- `Mnemonic(entropy, passcode)`; with `old := true` the pre-fix entropy handling. -/
def mnemonicWith (old : Bool) (pr : Prims) (h : Heap) (entropy : Slice) (pass : Bytes) :
    HRes (Option (Bytes × Bytes)) :=
  let r := if old then mnemonicEntropy_old pr h entropy else mnemonicEntropy pr h entropy
  match r.val with
  | none => ⟨r.heap, none⟩
  | some e' =>
    let ent := entropy.len * 8
    ⟨r.heap, some (sentenceOf pr (r.heap.read e') (ent + ent / 32) pass)⟩

def mnemonic := mnemonicWith false
def mnemonic_old := mnemonicWith true

/-! ### crypto/encryption.go -/

/-- the key stream a CFB decrypter applies to `src`: `src ⊕ cfbDec(src)`. -/
def cfbDecStream (pr : Prims) (key iv src : Bytes) : Bytes := xorBytes src (pr.cfbDec key iv src)
def cfbEncStream (pr : Prims) (key iv src : Bytes) : Bytes := xorBytes src (pr.cfbEnc key iv src)

/-- `crypto.Decrypt(block, ciphertext)` (current code): decrypts into a fresh `text`. -/
def cryptoDecrypt (pr : Prims) (h : Heap) (key : Bytes) (ct : Slice) : HRes (Option Bytes) :=
  if ct.len < 16 then ⟨h, none⟩ else
  let iv := reslice ct 0 16                                     -- iv := ciphertext[:aes.BlockSize]
  let ivb := h.read iv                                          -- NewCFBDecrypter copies the iv
  let rt := h.alloc (ct.len - 16) (ct.len - 16)                 -- text := make([]byte, len(ciphertext)-aes.BlockSize)
  let text := rt.val
  let src := rt.heap.read (reslice ct 16 ct.len)
  let h1 := rt.heap.xorInto text src (cfbDecStream pr key ivb src)   -- cfb.XORKeyStream(text, ciphertext[aes.BlockSize:])
  ⟨h1, pr.b64dec (h1.read text)⟩                                -- base64.StdEncoding.DecodeString(string(text))

/-- before commit 2a64865: `text := ciphertext[aes.BlockSize:]; cfb.XORKeyStream(text, text)`. -/
def cryptoDecrypt_old (pr : Prims) (h : Heap) (key : Bytes) (ct : Slice) : HRes (Option Bytes) :=
  if ct.len < 16 then ⟨h, none⟩ else
  let iv := reslice ct 0 16
  let ivb := h.read iv
  let text := reslice ct 16 ct.len
  let src := h.read text
  let h1 := h.xorInto text src (cfbDecStream pr key ivb src)
  ⟨h1, pr.b64dec (h1.read text)⟩

/-- `crypto.Encrypt(block, text)`. -/
def cryptoEncrypt (pr : Prims) (h : Heap) (key : Bytes) (text : Slice) (t : Rng.Tape) : HRes (Option Slice) :=
  let b := pr.b64enc (h.read text)                              -- b := base64.StdEncoding.EncodeToString(text)
  let rc := h.alloc (16 + b.length) (16 + b.length)             -- ciphertext := make([]byte, aes.BlockSize+len(b))
  let ct := rc.val
  let iv := reslice ct 0 16
  match Rng.readFull 16 t with                                  -- io.ReadFull(rand.Reader, iv)
  | none => ⟨rc.heap, none⟩
  | some (ivb, _) =>
    let h1 := (rc.heap.copyInto iv ivb).heap
    -- cfb.XORKeyStream(ciphertext[aes.BlockSize:], []byte(b))
    let h2 := h1.xorInto (reslice ct 16 ct.len) b (cfbEncStream pr key (h1.read iv) b)
    ⟨h2, some ct⟩

/-! ### base58/base58check.go -/

/-- `CheckEncode(input, version)`. -/
def checkEncode (pr : Prims) (h : Heap) (input : Slice) (version : UInt8) : HRes Bytes :=
  let r0 := h.alloc 0 (1 + input.len + 4)                       -- b := make([]byte, 0, 1+len(input)+4)
  let r1 := r0.heap.append r0.val [version]                     -- b = append(b, version)
  let r2 := r1.heap.append r1.val (r1.heap.read input)          -- b = append(b, input[:]...)
  let cksum := Base58.checksum pr (r2.heap.read r2.val)         -- cksum := checksum(b)   (a [4]byte value)
  let r3 := r2.heap.append r2.val cksum                         -- b = append(b, cksum[:]...)
  ⟨r3.heap, Base58.encode (r3.heap.read r3.val)⟩                -- return Encode(b)

/-- `CheckDecode(input string)`: `decoded` is `Decode`'s fresh slice; the result is
`append(result, payload...)` on the nil slice `result`, i.e. a copy, not a sub-slice of `decoded`. -/
def checkDecode (pr : Prims) (h : Heap) (input : Bytes) : HRes (Option (Slice × UInt8)) :=
  let rd := h.allocBytes (Base58.decode input)                  -- decoded := Decode(input)
  let decoded := rd.val
  if decoded.len < 5 then ⟨rd.heap, none⟩ else
  let version := rd.heap.readAt decoded 0                       -- version = decoded[0]
  let cksum := rd.heap.read (reslice decoded (decoded.len - 4) decoded.len)  -- copy(cksum[:], decoded[len(decoded)-4:])
  if Base58.checksum pr (rd.heap.read (reslice decoded 0 (decoded.len - 4))) != cksum then ⟨rd.heap, none⟩ else
  let payload := reslice decoded 1 (decoded.len - 4)            -- payload := decoded[1 : len(decoded)-4]
  let r := rd.heap.append Slice.nil (rd.heap.read payload)      -- result = append(result, payload...)
  ⟨r.heap, some (r.val, version)⟩

/-! ### paddedAppend (bec/pubkey.go, wif/wif.go, bip32/extendedkey.go: three identical copies) -/

/-- `for i := 0; i < n; i++ { dst = append(dst, 0) }` -/
def appendZeros (h : Heap) (dst : Slice) : Nat → HRes Slice
  | 0 => ⟨h, dst⟩
  | n+1 => let r := h.append dst [0]; appendZeros r.heap r.val n

/-- `paddedAppend(size, dst, src)`. -/
def paddedAppend (h : Heap) (size : Nat) (dst src : Slice) : HRes Slice :=
  let r := appendZeros h dst (size - src.len)                   -- for i := 0; i < int(size)-len(src); i++ { dst = append(dst, 0) }
  r.heap.append r.val (r.heap.read src)                         -- return append(dst, src...)

/-! ### bec/pubkey.go, bec/privkey.go -/

/-- `SerialiseUncompressed` / `SerialiseHybrid` share this shape (`format` = 0x04, or 0x06|odd(Y)). -/
def serialiseXY (h : Heap) (format : UInt8) (q : Pt) : HRes Slice :=
  let r0 := h.alloc 0 65                                        -- b := make([]byte, 0, PubKeyBytesLenUncompressed)
  let r1 := r0.heap.append r0.val [format]                      -- b = append(b, format)
  let rx := r1.heap.allocBytes (natBE q.1)                      -- p.X.Bytes()
  let r2 := paddedAppend rx.heap 32 r1.val rx.val               -- b = paddedAppend(32, b, p.X.Bytes())
  let ry := r2.heap.allocBytes (natBE q.2)                      -- p.Y.Bytes()
  paddedAppend ry.heap 32 r2.val ry.val                         -- return paddedAppend(32, b, p.Y.Bytes())

def serialiseUncompressed (h : Heap) (q : Pt) : HRes Slice := serialiseXY h 0x04 q
def serialiseHybrid (h : Heap) (q : Pt) : HRes Slice :=
  serialiseXY h (if q.2 % 2 == 1 then 0x07 else 0x06) q

/-- `SerialiseCompressed`. -/
def serialiseCompressed (h : Heap) (q : Pt) : HRes Slice :=
  let r0 := h.alloc 0 33                                        -- b := make([]byte, 0, PubKeyBytesLenCompressed)
  let r1 := r0.heap.append r0.val [if q.2 % 2 == 1 then 0x03 else 0x02]
  let rx := r1.heap.allocBytes (natBE q.1)
  paddedAppend rx.heap 32 r1.val rx.val                         -- return paddedAppend(32, b, p.X.Bytes())

/-- `PrivateKey.Serialise`. -/
def privSerialise (h : Heap) (d : Nat) : HRes Slice :=
  let r0 := h.alloc 0 32                                        -- b := make([]byte, 0, PrivKeyBytesLen)
  let rd := r0.heap.allocBytes (natBE d)                        -- p.ToECDSA().D.Bytes()
  paddedAppend rd.heap 32 r0.val rd.val

/-! ### wif/wif.go -/

/-- `WIF.String()`. -/
def wifString (pr : Prims) (h : Heap) (d : Nat) (compress : Bool) (netID : UInt8) : HRes Bytes :=
  let encodeLen := 1 + 32 + 4 + (if compress then 1 else 0)
  let r0 := h.alloc 0 encodeLen                                 -- a := make([]byte, 0, encodeLen)
  let r1 := r0.heap.append r0.val [netID]                       -- a = append(a, w.netID)
  let rd := r1.heap.allocBytes (natBE d)                        -- w.PrivKey.D.Bytes()
  let r2 := paddedAppend rd.heap 32 r1.val rd.val               -- a = paddedAppend(bec.PrivKeyBytesLen, a, …)
  let r3 := if compress then r2.heap.append r2.val [UInt8.ofNat Gen.k_compressMagic] else r2
  let cksum := (pr.sha256d (r3.heap.read r3.val)).take 4        -- cksum := crypto.Sha256d(a)[:4]
  let r4 := r3.heap.append r3.val cksum                         -- a = append(a, cksum...)
  ⟨r4.heap, Base58.encode (r4.heap.read r4.val)⟩                -- return base58.Encode(a)

/-! ### bip32/extendedkey.go -/

/-- an `ExtendedKey` as it lives in memory: four slices and three scalars. -/
structure XKeyH where
  key : Slice
  chainCode : Slice
  parentFP : Slice
  version : Slice
  childNum : Nat
  depth : Nat
  isPrivate : Bool
deriving Repr

/-- the key's byte values -/
def XKeyH.value (h : Heap) (k : XKeyH) : Bip32.XKey :=
  { key := h.read k.key, chainCode := h.read k.chainCode, parentFP := h.read k.parentFP,
    version := h.read k.version, childNum := k.childNum, depth := k.depth, isPrivate := k.isPrivate }

/-- `pubKeyBytes()`: the key slice itself for a public key, else a fresh compressed serialisation. -/
def pubKeyBytes (h : Heap) (k : XKeyH) : HRes Slice :=
  if !k.isPrivate then ⟨h, k.key⟩
  else serialiseCompressed h (Curve.scalarBaseMult (h.read k.key))

/-- `ExtendedKey.String()`: everything is appended into its own `make([]byte, 0, 82)`. -/
def xkeyString (pr : Prims) (h : Heap) (k : XKeyH) : HRes Bytes :=
  if k.key.len == 0 then ⟨h, Bip32.zeroedString⟩ else
  let childNumBytes := Bip32.be32 k.childNum                    -- binary.BigEndian.PutUint32(childNumBytes[:], k.childNum)
  let r0 := h.alloc 0 (78 + 4)                                  -- serializedBytes := make([]byte, 0, serializedKeyLen+4)
  let r1 := r0.heap.append r0.val (r0.heap.read k.version)      -- append(serializedBytes, k.version...)
  let r2 := r1.heap.append r1.val [UInt8.ofNat k.depth]
  let r3 := r2.heap.append r2.val (r2.heap.read k.parentFP)
  let r4 := r3.heap.append r3.val childNumBytes
  let r5 := r4.heap.append r4.val (r4.heap.read k.chainCode)
  let r6 :=
    if k.isPrivate then
      let r := r5.heap.append r5.val [0x00]                     -- append(serializedBytes, 0x00)
      paddedAppend r.heap 32 r.val k.key                        -- paddedAppend(32, serializedBytes, k.key)
    else
      let rp := pubKeyBytes r5.heap k
      rp.heap.append r5.val (rp.heap.read rp.val)               -- append(serializedBytes, k.pubKeyBytes()...)
  let checkSum := (pr.sha256d (r6.heap.read r6.val)).take 4     -- checkSum := crypto.Sha256d(serializedBytes)[:4]
  let r7 := r6.heap.append r6.val checkSum
  ⟨r7.heap, Base58.encode (r7.heap.read r7.val)⟩

/-- `ExtendedKey.Address(net)` = `addressFromPublicKeyHash(crypto.Hash160(k.pubKeyBytes()), addrID)`. -/
def xkeyAddress (pr : Prims) (h : Heap) (k : XKeyH) (addrID : UInt8) : HRes Bytes :=
  let rp := pubKeyBytes h k
  let rh := rp.heap.allocBytes (pr.hash160 (rp.heap.read rp.val))   -- crypto.Hash160(…): a fresh slice
  let r0 := rh.heap.alloc 1 1                                   -- bb := make([]byte, 1)
  let h1 := r0.heap.store r0.val 0 addrID                       -- bb[0] = addrID
  let r1 := h1.append r0.val (h1.read rh.val)                   -- bb = append(bb, hash...)
  let r2 := r1.heap.alloc 0 (r1.val.len + 4)                    -- b := make([]byte, 0, len(bb)+4)
  let r3 := r2.heap.append r2.val (r2.heap.read r1.val)         -- b = append(b, bb[:]...)
  let ckSum := (pr.sha256d (r3.heap.read r3.val)).take 4        -- ckSum := k.checksum(b)
  let r4 := r3.heap.append r3.val ckSum                         -- b = append(b, ckSum[:]...)
  ⟨r4.heap, Base58.encode (r4.heap.read r4.val)⟩                -- return base58.Encode(b)

/-- the `data` buffer of `ExtendedKey.Child(i)` up to the HMAC: the only writes are into `data`. -/
def childData (h : Heap) (k : XKeyH) (i : Nat) : HRes Slice :=
  let keyLen := 33
  let rd := h.alloc (keyLen + 4) (keyLen + 4)                   -- data := make([]byte, keyLen+4)
  let data := rd.val
  let h1 :=
    if i ≥ Gen.k_hardenedKeyStart then
      let offset := if keyLen - k.key.len < 1 then 1 else keyLen - k.key.len
      (rd.heap.copyInto (reslice data offset data.len) (rd.heap.read k.key)).heap   -- copy(data[offset:], k.key)
    else
      let rp := pubKeyBytes rd.heap k
      (rp.heap.copyInto data (rp.heap.read rp.val)).heap        -- copy(data, k.pubKeyBytes())
  let h2 := (h1.copyInto (reslice data keyLen data.len) (Bip32.be32 i)).heap       -- binary.BigEndian.PutUint32(data[keyLen:], i)
  ⟨h2, data⟩

/-- `Child(i)`: guards, `data`, then `I = HMAC-SHA512(chainCode, data)`; returns (heap, I). -/
def childHmac (pr : Prims) (h : Heap) (k : XKeyH) (i : Nat) : HRes (Option Bytes) :=
  if k.depth == Gen.k_maxUint8 then ⟨h, none⟩ else
  if !k.isPrivate && i ≥ Gen.k_hardenedKeyStart then ⟨h, none⟩ else
  let r := childData h k i
  ⟨r.heap, some (pr.hmac512 (r.heap.read k.chainCode) (r.heap.read r.val))⟩

/-! ### bec/signature.go -/

/-- `Signature.Serialise()`: `b := make([]byte, length)` then stores and copies into `b`. -/
def sigSerialise (h : Heap) (r s : Nat) : HRes Slice :=
  let sigS := if s > Der.halfOrder then (Int.natAbs ((Der.N : Int) - (s : Int))) else s
  let rb := Der.canonicalizeInt r                               -- rb := canonicalizeInt(sig.R)  (fresh)
  let sb := Der.canonicalizeInt sigS
  let length := 6 + rb.length + sb.length
  let r0 := h.alloc length length                               -- b := make([]byte, length)
  let b := r0.val
  let h1 := r0.heap.store b 0 0x30
  let h2 := h1.store b 1 (UInt8.ofNat (length - 2))
  let h3 := h2.store b 2 0x02
  let h4 := h3.store b 3 (UInt8.ofNat rb.length)
  let c := h4.copyInto (reslice b 4 b.len) rb                   -- offset := copy(b[4:], rb) + 4
  let offset := c.val + 4
  let h5 := c.heap.store b offset 0x02
  let h6 := h5.store b (offset + 1) (UInt8.ofNat sb.length)
  let h7 := (h6.copyInto (reslice b (offset + 2) b.len) sb).heap
  ⟨h7, b⟩

/-- `hashToInt(hash, c)`: re-slices its LOCAL copy of the header, never writes. -/
def hashToInt (h : Heap) (hash : Slice) : HRes Nat :=
  let orderBits := 256
  let orderBytes := (orderBits + 7) / 8
  let hash := if hash.len > orderBytes then reslice hash 0 orderBytes else hash   -- hash = hash[:orderBytes]
  let ret := beNat (h.read hash)                                -- ret := new(big.Int).SetBytes(hash)
  let excess := hash.len * 8 - orderBits
  ⟨h, if excess > 0 then ret >>> excess else ret⟩

/-- the result assembly of `SignCompact` for iteration `i` that matched. -/
def compactResult (h : Heap) (r s : Nat) (i : Nat) (compressed : Bool) : HRes Slice :=
  let r0 := h.alloc 1 65                                        -- result := make([]byte, 1, 2*curve.byteSize+1)
  let h1 := r0.heap.store r0.val 0 (UInt8.ofNat (27 + i + (if compressed then 4 else 0)))
  let curvelen := 32
  let bytelen := (natBE r).length                               -- (sig.R.BitLen() + 7) / 8
  let r1 : HRes Slice :=
    if bytelen < curvelen then h1.append r0.val (List.replicate (curvelen - bytelen) 0) else ⟨h1, r0.val⟩
  let r2 := r1.heap.append r1.val (natBE r)                     -- result = append(result, sig.R.Bytes()...)
  let bytelen := (natBE s).length
  let r3 : HRes Slice :=
    if bytelen < curvelen then r2.heap.append r2.val (List.replicate (curvelen - bytelen) 0) else r2
  r3.heap.append r3.val (natBE s)

def compactLoopH (h : Heap) (r s : Nat) (hash : Slice) (pub : Pt) (compressed : Bool) :
    Nat → Nat → HRes (Option Slice)
  | 0, _ => ⟨h, none⟩
  | fuel+1, i =>
    match Ecdsa.recoverKey r s (h.read hash) i true with
    | some pk =>
      if pk.1 == pub.1 && pk.2 == pub.2 then
        let c := compactResult h r s i compressed
        ⟨c.heap, some c.val⟩
      else compactLoopH h r s hash pub compressed fuel (i+1)
    | none => compactLoopH h r s hash pub compressed fuel (i+1)

/-- `SignCompact(curve, key, hash, isCompressedKey)`. -/
def signCompact (pr : Prims) (fuel : Nat) (h : Heap) (d : Nat) (pub : Pt) (hash : Slice) (compressed : Bool) :
    HRes (Option Slice) :=
  match Ecdsa.sign pr fuel d (h.read hash) with
  | none => ⟨h, none⟩
  | some (r, s) => compactLoopH h r s hash pub compressed ((Gen.c_H + 1) * 2) 0

/-! ### bec/btcec.go: NAF -/

structure NafSt where
  heap : Heap
  carry : Bool
  curByte : UInt8

/-- one iteration of the inner loop `for j := uint(0); j < 8; j++` at byte index `i`. -/
def nafBit (retPos retNeg k : Slice) (i : Nat) (st : NafSt) (j : Nat) : NafSt :=
  let h := st.heap
  let curIsOne := st.curByte &&& 1 == 1
  let nextIsOne :=
    if j == 7 then (if i == 0 then false else h.readAt k (i - 1) &&& 1 == 1)
    else st.curByte &&& 2 == 2
  let bit : UInt8 := (1 : UInt8) <<< (UInt8.ofNat j)
  let addTo (s : Slice) : Heap := h.store s (i + 1) (h.readAt s (i + 1) + bit)   -- ret[i+1] += 1 << j
  let (h', carry') :=
    if st.carry then
      if curIsOne then (h, true)
      else if nextIsOne then (addTo retNeg, true)
      else (addTo retPos, false)
    else if curIsOne then
      if nextIsOne then (addTo retNeg, true) else (addTo retPos, false)
    else (h, false)
  ⟨h', carry', st.curByte >>> 1⟩

/-- the outer loop `for i := len(k) - 1; i >= 0; i--`, `n` = number of bytes still to process. -/
def nafLoop (retPos retNeg k : Slice) : Nat → Heap → Bool → Heap × Bool
  | 0, h, carry => (h, carry)
  | i+1, h, carry =>
    let st := [0,1,2,3,4,5,6,7].foldl (nafBit retPos retNeg k i) ⟨h, carry, h.readAt k i⟩
    nafLoop retPos retNeg k i st.heap st.carry

/-- `NAF(k)`: both results are the function's own arrays. -/
def naf (h : Heap) (k : Slice) : HRes (Slice × Slice) :=
  let rp := h.alloc (k.len + 1) (k.len + 1)                     -- retPos := make([]byte, len(k)+1)
  let rn := rp.heap.alloc (k.len + 1) (k.len + 1)               -- retNeg := make([]byte, len(k)+1)
  let (h1, carry) := nafLoop rp.val rn.val k k.len rn.heap false
  if carry then
    ⟨h1.store rp.val 0 1, (rp.val, rn.val)⟩                     -- retPos[0] = 1; return retPos, retNeg
  else
    ⟨h1, (reslice rp.val 1 rp.val.len, reslice rn.val 1 rn.val.len)⟩   -- return retPos[1:], retNeg[1:]

/-! ### read-only callees: the function only reads the slice and computes a value -/

/-- a callee that reads `s` and returns a value computed from its bytes -/
def readOnly {α : Type} (f : Bytes → α) (h : Heap) (s : Slice) : HRes α := ⟨h, f (h.read s)⟩

end GoBk.HeapFns
