import GoBk.Model.Envelope
/-
  What `encoding/json` (Go 1.23) does to a Go `string` on Marshal and on Unmarshal.  Core Lean only, executable.

  * `jsonQuote s`   = `appendString(nil, s, escapeHTML = true)` (encode.go), i.e. `json.Marshal(s)` for a string `s`
    and the encoding of every string field of a struct.  One iteration of its `for` loop is `quoteStep`.
    (Go copies the unescaped stretches lazily, `src[start:i]`; the model copies them piecewise: the same bytes.)
  * `unquoteBytes s` = `unquoteBytes(s)` (decode.go), the function `json.Unmarshal` applies to a string literal
    that the scanner has accepted.  One iteration of its second `for` loop is `unquoteStep`.  (Go first scans for
    the longest prefix that needs no work and copies it wholesale; the loop does the same to such a prefix:
    ASCII is copied and a well-formed sequence is decoded and re-encoded, `GoBk.Proofs.JsonL.unquote_plain`.)
  * `jsonUnquote s`  = `json.Unmarshal(s, &str)` for an input that starts and ends with `"` (no surrounding white
    space): the scanner (`checkValid`) and then `unquoteBytes`.  On such inputs the scanner rejects exactly what
    `unquoteBytes` rejects plus the escape `\'`, which `unquoteBytes` alone would accept.
  * `decodeRune`, `encodeRune` = `utf8.DecodeRune`, `utf8.EncodeRune` (well-formedness is `Envelope.utf8SeqLen`);
    the shifts and masks of the Go source are written as `/`, `%`, `*` on `Nat`.
-/
namespace GoBk.JsonString
open GoBk Envelope

/-! ### unicode/utf8 -/

/-- `utf8.DecodeRune`: (rune, size); `(U+FFFD, 1)` for a byte that starts no well-formed sequence,
`(U+FFFD, 0)` for the empty string -/
def decodeRune (b : Bytes) : Nat × Nat :=
  match utf8SeqLen b, b with
  | 1, a :: _ => (a.toNat, 1)
  | 2, a :: b1 :: _ => (a.toNat % 32 * 64 + b1.toNat % 64, 2)
  | 3, a :: b1 :: b2 :: _ => (a.toNat % 16 * 4096 + b1.toNat % 64 * 64 + b2.toNat % 64, 3)
  | 4, a :: b1 :: b2 :: b3 :: _ =>
    (a.toNat % 8 * 262144 + b1.toNat % 64 * 4096 + b2.toNat % 64 * 64 + b3.toNat % 64, 4)
  | _, [] => (0xFFFD, 0)
  | _, _ :: _ => (0xFFFD, 1)

/-- `utf8.EncodeRune` (surrogates and values above U+10FFFF are encoded as U+FFFD) -/
def encodeRune (r : Nat) : Bytes :=
  if r < 0x80 then [UInt8.ofNat r]
  else if r < 0x800 then [UInt8.ofNat (0xC0 + r / 64), UInt8.ofNat (0x80 + r % 64)]
  else if r > 0x10FFFF || (0xD800 ≤ r && r ≤ 0xDFFF) then [0xEF, 0xBF, 0xBD]
  else if r < 0x10000 then
    [UInt8.ofNat (0xE0 + r / 4096), UInt8.ofNat (0x80 + r / 64 % 64), UInt8.ofNat (0x80 + r % 64)]
  else
    [UInt8.ofNat (0xF0 + r / 262144), UInt8.ofNat (0x80 + r / 4096 % 64), UInt8.ofNat (0x80 + r / 64 % 64),
      UInt8.ofNat (0x80 + r % 64)]

/-! ### Marshal -/

/-- `"0123456789abcdef"[n]` -/
def hexLower (n : Nat) : UInt8 := if n < 10 then UInt8.ofNat (0x30 + n) else UInt8.ofNat (0x57 + n)

/-- `htmlSafeSet[c]` for `c < 0x80`: everything from 0x20 on (0x7f included) except `"` `\` `<` `>` `&` -/
def htmlSafe (c : UInt8) : Bool :=
  0x20 ≤ c && c < 0x80 && c != 0x22 && c != 0x5c && c != 0x3c && c != 0x3e && c != 0x26

/-- one iteration of the loop of `appendString` with `escapeHTML = true`, on the non-empty rest of the input:
(bytes appended to the output, rest of the input) -/
def quoteStep : Bytes → Bytes × Bytes
  | [] => ([], [])
  | c :: rest =>
    if c < 0x80 then
      if htmlSafe c then ([c], rest)
      else if c == 0x5c || c == 0x22 then ([0x5c, c], rest)
      else if c == 0x08 then ([0x5c, 0x62], rest)       -- \b
      else if c == 0x0c then ([0x5c, 0x66], rest)       -- \f
      else if c == 0x0a then ([0x5c, 0x6e], rest)       -- \n
      else if c == 0x0d then ([0x5c, 0x72], rest)       -- \r
      else if c == 0x09 then ([0x5c, 0x74], rest)       -- \t
      else ([0x5c, 0x75, 0x30, 0x30, hexLower (c.toNat / 16), hexLower (c.toNat % 16)], rest)   -- \u00XX
    else
      -- Go decodes at most `utf8.UTFMax` = 4 bytes of the input; the result is the same
      let (r, size) := decodeRune (c :: rest)
      if r == 0xFFFD && size == 1 then ([0x5c, 0x75, 0x66, 0x66, 0x66, 0x64], rest)            -- \ufffd
      else if r == 0x2028 || r == 0x2029 then
        ([0x5c, 0x75, 0x32, 0x30, 0x32, hexLower (r % 16)], (c :: rest).drop size)                -- \u202X
      else ((c :: rest).take size, (c :: rest).drop size)

def quoteLoop : Nat → Bytes → Bytes
  | _, [] => []
  | 0, _ :: _ => []
  | fuel + 1, c :: rest =>
    let (out, rem) := quoteStep (c :: rest)
    out ++ quoteLoop fuel rem

/-- the JSON text of the Go string `s` as `json.Marshal` writes it -/
def jsonQuote (s : Bytes) : Bytes := 0x22 :: quoteLoop s.length s ++ [0x22]

/-! ### Unmarshal -/

def hexVal (c : UInt8) : Option Nat :=
  if 0x30 ≤ c && c ≤ 0x39 then some (c.toNat - 0x30)
  else if 0x61 ≤ c && c ≤ 0x66 then some (c.toNat - 0x61 + 10)
  else if 0x41 ≤ c && c ≤ 0x46 then some (c.toNat - 0x41 + 10)
  else none

/-- `getu4`: the value of `\uXXXX` at the head of `s`; `none` is Go's -1 -/
def getu4 : Bytes → Option Nat
  | x :: y :: a :: b :: c :: d :: _ =>
    if x == 0x5c && y == 0x75 then
      match hexVal a, hexVal b, hexVal c, hexVal d with
      | some a, some b, some c, some d => some (((a * 16 + b) * 16 + c) * 16 + d)
      | _, _, _, _ => none
    else none
  | _ => none

/-- `utf16.IsSurrogate` -/
def isSurrogate (r : Nat) : Bool := 0xD800 ≤ r && r < 0xE000

/-- `utf16.DecodeRune(r1, r2)`; `r2 = none` is Go's -1 -/
def utf16Decode (r1 : Nat) : Option Nat → Nat
  | some r2 =>
    if 0xD800 ≤ r1 && r1 < 0xDC00 && 0xDC00 ≤ r2 && r2 < 0xE000 then
      (r1 - 0xD800) * 1024 + (r2 - 0xDC00) + 0x10000
    else 0xFFFD
  | none => 0xFFFD

/-- one iteration of the second loop of `unquoteBytes`, on the non-empty rest of the literal's body:
`none` = `return` with `ok = false`, else (bytes written, rest of the input).  `apos`: accept the escape `\'`. -/
def unquoteStep (apos : Bool) : Bytes → Option (Bytes × Bytes)
  | [] => none
  | c :: rest =>
    if c == 0x5c then
      match rest with
      | [] => none
      | e :: rest' =>
        if e == 0x22 || e == 0x5c || e == 0x2f || (e == 0x27 && apos) then some ([e], rest')
        else if e == 0x62 then some ([0x08], rest')
        else if e == 0x66 then some ([0x0c], rest')
        else if e == 0x6e then some ([0x0a], rest')
        else if e == 0x72 then some ([0x0d], rest')
        else if e == 0x74 then some ([0x09], rest')
        else if e == 0x75 then
          match getu4 (c :: rest) with
          | none => none
          | some rr =>
            let s6 := (c :: rest).drop 6
            if isSurrogate rr then
              let dec := utf16Decode rr (getu4 s6)
              if dec != 0xFFFD then some (encodeRune dec, s6.drop 6)     -- a valid pair: consume both
              else some (encodeRune 0xFFFD, s6)                           -- lone surrogate
            else some (encodeRune rr, s6)
        else none
    else if c == 0x22 || c < 0x20 then none
    else if c < 0x80 then some ([c], rest)
    else
      let (rr, size) := decodeRune (c :: rest)
      some (encodeRune rr, (c :: rest).drop size)

def unquoteLoop (apos : Bool) : Nat → Bytes → Option Bytes
  | _, [] => some []
  | 0, _ :: _ => none
  | fuel + 1, c :: rest =>
    match unquoteStep apos (c :: rest) with
    | none => none
    | some (out, rem) => (unquoteLoop apos fuel rem).map (out ++ ·)

def unquoteWith (apos : Bool) (s : Bytes) : Option Bytes :=
  if s.length < 2 || s.head? != some 0x22 || s.getLast? != some 0x22 then none
  else
    let body := (s.drop 1).dropLast
    unquoteLoop apos body.length body

/-- Go's internal `unquoteBytes` (accepts `\'`) -/
def unquoteBytes (s : Bytes) : Option Bytes := unquoteWith true s

/-- `json.Unmarshal(s, &str)` for `s` = `"`…`"`: the Go string, or `none` for an error -/
def jsonUnquote (s : Bytes) : Option Bytes := unquoteWith false s

end GoBk.JsonString
