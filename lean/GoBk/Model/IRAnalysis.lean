import GoBk.Model.IR
/-
  GoBk.Model.IRAnalysis — an executable MAGNITUDE / NORMALISATION analysis (abstract interpreter)
  for the point-arithmetic IR (`GoBk.IR`, data in `Gen/CurveIR.lean`).  Core Lean only.

  Abstract value of a cell (`AVal`):
    * `mag`   — an upper bound of the magnitude in the sense of `GoBk.Proofs.Field.MagLe`
                (words 0..8 ≤ mag·(2^26+2^20), word 9 ≤ mag·2^22);
    * `canon` — the cell is FULLY NORMALISED: canonical words (< 2^26, top < 2^22) AND value < P
                (what `Normalise` returns; also `SetInt k` for k < 2^26 and a fresh zero local).
                This is what the Go code relies on whenever it calls `Equals` / `IsOdd`.

  Abstract memory (`AMem`) = list of abstract values indexed by ADDRESS, exactly mirroring
  `GoBk.IR.Mem`: `length = Mem.next`, parameters are addresses (aliasing is resolved exactly as in
  `execBlock`), a call appends `nlocals` zero cells.

  Transfer functions = pre/postconditions of the word-level theorems (Proofs/Field*.lean):
      set src            copy
      setInt k           k ≤ 2^26+2^20                       ↦ mag 1, canon iff k < 2^26
      add / add2         ma + mb ≤ 63                        ↦ ma + mb
      addInt k           k ≤ 2^26+2^20, m + 1 ≤ 63           ↦ m + 1
      negate k / negateVal src k   m ≤ k ≤ 63                ↦ k + 1
      mulInt k           k·m ≤ 63                            ↦ k·m
      mul / mul2 / square / squareVal   operands ≤ 8         ↦ 1 (not canon)
      normalise          m ≤ 62                              ↦ 1, canon
      inverse / sqrtVal  operand ≤ 8                         ↦ 1 (not canon)
  Conditions: `equals a b` and `isOdd c` REQUIRE canon operands (otherwise the checker fails);
  `isZero` is allowed anywhere (it tests the integer value); flags are not tracked (both branches
  of a test on flags are analysed).

  Control: the result of analysing a statement/block is a LIST of abstract exit states, each
  tagged `returned` (an executed `return`) or not; a returned state does not flow into the
  continuation.  States with the same tag and the same memory size are JOINED (max mag,
  canon ∧ canon); states of different size (different allocation history: `Mem.next` is path
  dependent after a call) are kept apart, so addresses stay exact.  `none` = some precondition
  could not be established.

  Soundness w.r.t. `GoBk.IR.execBlock` is proved once, for arbitrary programs, in
  `GoBk/Proofs/IRSound.lean`.
-/
namespace GoBk.IRA
open GoBk.IR

structure AVal where
  mag : Nat
  canon : Bool
deriving DecidableEq, Repr, Inhabited

/-- a fresh `var x fieldVal` -/
def AVal.zero : AVal := ⟨0, true⟩
/-- a normalised value (package constants `fieldOne`, `curve.fieldB`, `curve.beta`) -/
def AVal.norm : AVal := ⟨1, true⟩

def AVal.join (a b : AVal) : AVal := ⟨max a.mag b.mag, a.canon && b.canon⟩

/-- `a` is at least as precise as `b` -/
def AVal.le (a b : AVal) : Bool := decide (a.mag ≤ b.mag) && (!b.canon || a.canon)

/-- abstract memory: index = address; `length` = `Mem.next` -/
abbrev AMem := List AVal

def joinMem (a b : AMem) : AMem := List.zipWith AVal.join a b

/-- the part of a `Frame` the analysis needs (flags are not tracked) -/
structure AFrame where
  params : List Nat
  locBase : Nat
deriving Repr

def AFrame.addr (fr : AFrame) : Cell → Nat
  | .param i => fr.params.getD i 0
  | .loc i => fr.locBase + i
  | .fieldOne => 0
  | .fieldB => 1
  | .beta => 2

end GoBk.IRA

def GoBk.IR.Frame.toA (fr : GoBk.IR.Frame) : GoBk.IRA.AFrame := ⟨fr.params, fr.locBase⟩

namespace GoBk.IRA
open GoBk.IR

/-- one unit of magnitude in words 0..8: 2^26 + 2^20 -/
def wordUnit : Nat := 68157440

/-- abstract effect of `dst.<op>`: `none` if the precondition of the word-level theorem for this
operation cannot be established from the abstract memory. -/
def transfer (fr : AFrame) (ρ : AMem) (dst : Cell) : Op → Option AVal
  | .set src => ρ[fr.addr src]?
  | .setInt k => if k ≤ 68157440 then some ⟨1, decide (k < 67108864)⟩ else none
  | .add src =>
    match ρ[fr.addr dst]?, ρ[fr.addr src]? with
    | some a, some b => if a.mag + b.mag ≤ 63 then some ⟨a.mag + b.mag, false⟩ else none
    | _, _ => none
  | .add2 x y =>
    match ρ[fr.addr x]?, ρ[fr.addr y]? with
    | some a, some b => if a.mag + b.mag ≤ 63 then some ⟨a.mag + b.mag, false⟩ else none
    | _, _ => none
  | .addInt k =>
    match ρ[fr.addr dst]? with
    | some a => if k ≤ 68157440 ∧ a.mag + 1 ≤ 63 then some ⟨a.mag + 1, false⟩ else none
    | none => none
  | .negate k =>
    match ρ[fr.addr dst]? with
    | some a => if a.mag ≤ k ∧ k ≤ 63 then some ⟨k + 1, false⟩ else none
    | none => none
  | .negateVal src k =>
    match ρ[fr.addr src]? with
    | some a => if a.mag ≤ k ∧ k ≤ 63 then some ⟨k + 1, false⟩ else none
    | none => none
  | .mulInt k =>
    match ρ[fr.addr dst]? with
    | some a => if k * a.mag ≤ 63 then some ⟨k * a.mag, false⟩ else none
    | none => none
  | .mul src =>
    match ρ[fr.addr dst]?, ρ[fr.addr src]? with
    | some a, some b => if a.mag ≤ 8 ∧ b.mag ≤ 8 then some ⟨1, false⟩ else none
    | _, _ => none
  | .mul2 x y =>
    match ρ[fr.addr x]?, ρ[fr.addr y]? with
    | some a, some b => if a.mag ≤ 8 ∧ b.mag ≤ 8 then some ⟨1, false⟩ else none
    | _, _ => none
  | .square =>
    match ρ[fr.addr dst]? with
    | some a => if a.mag ≤ 8 then some ⟨1, false⟩ else none
    | none => none
  | .squareVal src =>
    match ρ[fr.addr src]? with
    | some a => if a.mag ≤ 8 then some ⟨1, false⟩ else none
    | none => none
  | .normalise =>
    match ρ[fr.addr dst]? with
    | some a => if a.mag ≤ 62 then some ⟨1, true⟩ else none
    | none => none
  | .inverse =>
    match ρ[fr.addr dst]? with
    | some a => if a.mag ≤ 8 then some ⟨1, false⟩ else none
    | none => none
  | .sqrtVal src =>
    match ρ[fr.addr src]? with
    | some a => if a.mag ≤ 8 then some ⟨1, false⟩ else none
    | none => none

/-- the cell is known to be fully normalised -/
def canonAt (fr : AFrame) (ρ : AMem) (c : Cell) : Bool :=
  match ρ[fr.addr c]? with
  | some v => v.canon
  | none => false

/-- every `Equals` / `IsOdd` in the condition is applied to normalised cells only
(conservative: ignores short-circuit evaluation) -/
def condOk (fr : AFrame) (ρ : AMem) : Cond → Bool
  | .isZero _ => true
  | .equals a b => canonAt fr ρ a && canonAt fr ρ b
  | .isOdd c => canonAt fr ρ c
  | .flag _ => true
  | .not c => condOk fr ρ c
  | .and a b => condOk fr ρ a && condOk fr ρ b
  | .or a b => condOk fr ρ a && condOk fr ρ b

/-- abstract exit state of a statement / block -/
structure AOut where
  mem : AMem
  returned : Bool
deriving DecidableEq, Repr

/-- add an exit state to a set of exit states, joining it with the first one that has the same
`returned` tag and the same memory size -/
def insertOut (o : AOut) : List AOut → List AOut
  | [] => [o]
  | p :: ps =>
    if p.returned = o.returned ∧ p.mem.length = o.mem.length then
      ⟨joinMem p.mem o.mem, p.returned⟩ :: ps
    else p :: insertOut o ps

def mergeOuts (a b : List AOut) : List AOut := a.foldr insertOut b

/-- continue every non-returned exit state with `k`; keep the returned ones -/
def contOuts (k : AMem → Option (List AOut)) : List AOut → Option (List AOut)
  | [] => some []
  | o :: os =>
    if o.returned then
      match contOuts k os with
      | some b => some (insertOut o b)
      | none => none
    else
      match k o.mem, contOuts k os with
      | some a, some b => some (mergeOuts a b)
      | _, _ => none

/-- a call handler: callee index, addresses bound to its parameters, abstract memory at the call
↦ abstract memories after the call -/
abbrev CallK := Nat → List Nat → AMem → Option (List AMem)

mutual
def checkStmt (K : CallK) (fr : AFrame) : Stmt → AMem → Option (List AOut)
  | .op dst o, ρ =>
    match transfer fr ρ dst o with
    | none => none
    | some v => if fr.addr dst < ρ.length then some [⟨ρ.set (fr.addr dst) v, false⟩] else none
  | .setFlag _ c, ρ => if condOk fr ρ c then some [⟨ρ, false⟩] else none
  | .ite c t e, ρ =>
    if condOk fr ρ c then
      match checkBlock K fr t ρ, checkBlock K fr e ρ with
      | some a, some b => some (mergeOuts a b)
      | _, _ => none
    else none
  | .ret, ρ => some [⟨ρ, true⟩]
  | .call f args, ρ =>
    match K f (args.map fr.addr) ρ with
    | some ms => some (ms.foldr (fun m acc => insertOut ⟨m, false⟩ acc) [])
    | none => none
def checkBlock (K : CallK) (fr : AFrame) : Block → AMem → Option (List AOut)
  | .nil, ρ => some [⟨ρ, false⟩]
  | .cons s rest, ρ =>
    match checkStmt K fr s ρ with
    | none => none
    | some outs => contOuts (fun ρ' => checkBlock K fr rest ρ') outs
end

/-- calls, `fuel` levels deep: the callee is analysed on the bound ADDRESSES, its locals are
appended to the abstract memory as zero cells (as `execStmt` does) -/
def checkCall (prog : Array Fn) : Nat → CallK
  | 0 => fun _ _ _ => none
  | fuel + 1 => fun f addrs ρ =>
    match prog[f]? with
    | none => none
    | some fn =>
      match checkBlock (checkCall prog fuel) ⟨addrs, ρ.length⟩ fn.body
              (ρ ++ List.replicate fn.nlocals AVal.zero) with
      | some outs => some (outs.map (·.mem))
      | none => none

/-- **the analysis**: exit states of block `blk` run in frame `fr` from abstract memory `ρ`,
calls at most `fuel` deep -/
def magCheck (prog : Array Fn) (fuel : Nat) (fr : AFrame) (blk : Block) (ρ : AMem) :
    Option (List AOut) :=
  checkBlock (checkCall prog fuel) fr blk ρ

/-! ### whole functions, in the memory layout of `GoBk.IR.runFn` / `runFnFull`
addresses 0,1,2 = fieldOne, fieldB, beta (normalised constants); parameter `i` lives at address
`3 + alias[i]`; the slot `3 + j` initially holds argument `j`; locals follow. -/

def initAMem (pre : List AVal) (nlocals : Nat) : AMem :=
  [AVal.norm, AVal.norm, AVal.norm] ++ pre ++ List.replicate nlocals AVal.zero

def initAFrame (nargs : Nat) (alias : List Nat) : AFrame :=
  ⟨(List.range nargs).map fun i => 3 + alias.getD i i, 3 + nargs⟩

/-- analyse function `f` of `prog` with abstract arguments `pre` (one per parameter SLOT) under
the aliasing pattern `alias` (as in `runFn`), call fuel 8 as in `runFn` -/
def magCheckFn (prog : Array Fn) (f : Nat) (pre : List AVal) (alias : List Nat) :
    Option (List AOut) :=
  match prog[f]? with
  | none => none
  | some fn => magCheck prog 8 (initAFrame pre.length alias) fn.body (initAMem pre fn.nlocals)

/-- in exit state `o`, slot `3 + j` satisfies `post[j]` for every `j` -/
def outLe (post : List AVal) (o : AOut) : Bool :=
  (List.range post.length).all fun j =>
    match o.mem[3 + j]?, post[j]? with
    | some v, some p => v.le p
    | _, _ => false

/-- the analysis succeeds and EVERY exit state satisfies `post` on the parameter slots -/
def magCheckFnOk (prog : Array Fn) (f : Nat) (pre post : List AVal) (alias : List Nat) : Bool :=
  match magCheckFn prog f pre alias with
  | some outs => outs.all (outLe post)
  | none => false

/-- join of the parameter slots over all exit states (for reporting) -/
def magSummary (prog : Array Fn) (f : Nat) (pre : List AVal) (alias : List Nat) :
    Option (List AVal) :=
  match magCheckFn prog f pre alias with
  | none => none
  | some [] => some []
  | some (o :: os) =>
    some (os.foldl (fun acc o' => List.zipWith AVal.join acc ((o'.mem.drop 3).take pre.length))
      ((o.mem.drop 3).take pre.length))

/-! ### diagnostics (used by no theorem): WHERE does the analysis fail?
`diagFn` mirrors `magCheckFn` but returns a message naming the first failing statement (its
operation, destination and the abstract operands). -/

def diagOp (fr : AFrame) (ρ : AMem) (dst : Cell) (o : Op) : String :=
  let cells : List Cell := match o with
    | .set s => [s] | .setInt _ => [] | .add s => [dst, s] | .add2 a b => [a, b] | .addInt _ => [dst]
    | .negate _ => [dst] | .negateVal s _ => [s] | .mulInt _ => [dst] | .mul s => [dst, s]
    | .mul2 a b => [a, b] | .square => [dst] | .squareVal s => [s] | .normalise => [dst]
    | .inverse => [dst] | .sqrtVal s => [s]
  s!"op {repr dst} ({repr o}) with operands {repr (cells.map fun c => (c, ρ[fr.addr c]?))}"

def diagConts (k : AMem → Except String (List AOut)) : List AOut → Except String (List AOut)
  | [] => .ok []
  | o :: os =>
    if o.returned then (diagConts k os).map (insertOut o)
    else match k o.mem, diagConts k os with
      | .ok a, .ok b => .ok (mergeOuts a b)
      | .error e, _ => .error e
      | _, .error e => .error e

mutual
def diagStmt (K : Nat → List Nat → AMem → Except String (List AMem)) (fr : AFrame) :
    Stmt → AMem → Except String (List AOut)
  | .op dst o, ρ =>
    match transfer fr ρ dst o with
    | none => .error (diagOp fr ρ dst o)
    | some v => if fr.addr dst < ρ.length then .ok [⟨ρ.set (fr.addr dst) v, false⟩]
                else .error s!"write to unallocated address by {repr dst}"
  | .setFlag _ c, ρ => if condOk fr ρ c then .ok [⟨ρ, false⟩] else .error s!"condition on non-normalised cell: {repr c}"
  | .ite c t e, ρ =>
    if condOk fr ρ c then
      match diagBlock K fr t ρ, diagBlock K fr e ρ with
      | .ok a, .ok b => .ok (mergeOuts a b)
      | .error e, _ => .error e
      | _, .error e => .error e
    else .error s!"condition on non-normalised cell: {repr c} operands {repr (ρ.take 40)}"
  | .ret, ρ => .ok [⟨ρ, true⟩]
  | .call f args, ρ =>
    match K f (args.map fr.addr) ρ with
    | .ok ms => .ok (ms.foldr (fun m acc => insertOut ⟨m, false⟩ acc) [])
    | .error e => .error s!"in call of fn {f}: {e}"
def diagBlock (K : Nat → List Nat → AMem → Except String (List AMem)) (fr : AFrame) :
    Block → AMem → Except String (List AOut)
  | .nil, ρ => .ok [⟨ρ, false⟩]
  | .cons s rest, ρ =>
    match diagStmt K fr s ρ with
    | .error e => .error e
    | .ok outs => diagConts (fun ρ' => diagBlock K fr rest ρ') outs
end

def diagCall (prog : Array Fn) : Nat → Nat → List Nat → AMem → Except String (List AMem)
  | 0 => fun _ _ _ => .error "out of call fuel"
  | fuel + 1 => fun f addrs ρ =>
    match prog[f]? with
    | none => .error s!"no function {f}"
    | some fn =>
      match diagBlock (diagCall prog fuel) ⟨addrs, ρ.length⟩ fn.body
              (ρ ++ List.replicate fn.nlocals AVal.zero) with
      | .ok outs => .ok (outs.map (·.mem))
      | .error e => .error s!"{fn.name}: {e}"

def diagFn (prog : Array Fn) (f : Nat) (pre : List AVal) (alias : List Nat) :
    Except String (List AOut) :=
  match prog[f]? with
  | none => .error "no such function"
  | some fn =>
    match diagBlock (diagCall prog 8) (initAFrame pre.length alias) fn.body (initAMem pre fn.nlocals) with
    | .ok o => .ok o
    | .error e => .error s!"{fn.name}: {e}"

end GoBk.IRA
