import GoBk.Base.Bytes
import GoBk.Gen.B58Tab
import GoBk.Model.Prims
/-
  Model of /repo/base58/base58.go and base58check.go.
  `encode`/`decode` follow the Go loops statement by statement (see comments); the tables are
  the regenerated `Gen.alphabet`, `Gen.b58`.
-/
namespace GoBk.Base58
open GoBk Bytes

/-- base-58 digits of `n`, least significant first: the `for x > 0 { x.DivMod(x, 58, mod); … }` loop. -/
def digitsLE : Nat → Nat → List Nat
  | 0, _ => []
  | fuel+1, n => if n = 0 then [] else (n % 58) :: digitsLE fuel (n / 58)

def leadingCount (c : UInt8) : Bytes → Nat
  | [] => 0
  | x :: xs => if x = c then leadingCount c xs + 1 else 0

def alphaAt (d : Nat) : UInt8 := Gen.alphabet.getD d 0

/-- `Encode`: digits (LE) of the number, then one `alphabetIdx0` per leading zero byte, reversed. -/
def encode (b : Bytes) : Bytes :=
  let x := beNat b
  let answer := (digitsLE (x + 1) x).map alphaAt
  let answer := answer ++ List.replicate (leadingCount 0 b) Gen.alphabetIdx0
  answer.reverse

def b58At (c : UInt8) : UInt8 := Gen.b58.getD c.toNat 255

/-- value of a digit string, most significant first (`answer += j * b58[b[i]]`, j = 58^(len-1-i)). -/
def fromDigits (ds : List UInt8) : Nat := ds.foldl (fun acc d => acc * 58 + d.toNat) 0

/-- `Decode`: any byte outside the alphabet gives the empty slice. -/
def decode (s : Bytes) : Bytes :=
  let ds := s.map b58At
  if ds.any (· == 255) then []
  else List.replicate (leadingCount Gen.alphabetIdx0 s) 0 ++ natBE (fromDigits ds)

def checksum (pr : Prims) (b : Bytes) : Bytes := (pr.sha256d b).take 4

def checkEncode (pr : Prims) (input : Bytes) (version : UInt8) : Bytes :=
  let b := version :: input
  encode (b ++ checksum pr b)

def checkDecode (pr : Prims) (s : Bytes) : Option (Bytes × UInt8) :=
  let decoded := decode s
  if decoded.length < 5 then none
  else
    let body := decoded.take (decoded.length - 4)
    let ck := decoded.drop (decoded.length - 4)
    if checksum pr body != ck then none
    else some (body.drop 1, decoded.headD 0)

end GoBk.Base58
