import GoBk.Model.Bip32
/-
  Histories of extended keys (C18, also used by the C04/C08 streams): a store of key OBJECTS and a
  register file of references to them.  `Neuter` of a public key and `DeriveChildFromPath("")`
  return the SAME object (as the Go code returns the receiver); every other constructor makes a new
  object.  `SetNet` and `Zero` mutate one object in place.
-/
namespace GoBk.XKeyStore
open GoBk Bytes Bip32

structure Net where
  addrID : UInt8
  hdPriv : Bytes
  hdPub : Bytes

inductive Op
  | child (reg : Nat) (i : Nat)
  | neuter (reg : Nat)
  | path (reg : Nat) (p : Bytes)
  | reparse (reg : Nat)            -- NewKeyFromString(k.String())
  | setNet (reg : Nat) (net : Nat)
  | zero (reg : Nat)

structure State where
  objs : Array XKey := #[]
  regs : Array (Option Nat) := #[]     -- register ↦ object id (none: the constructor returned an error)

def State.newObj (st : State) (r : Except Err XKey) : State :=
  match r with
  | .ok k => { objs := st.objs.push k, regs := st.regs.push (some st.objs.size) }
  | .error _ => { st with regs := st.regs.push none }

def State.alias (st : State) (id : Nat) : State := { st with regs := st.regs.push (some id) }
def State.fail (st : State) : State := { st with regs := st.regs.push none }

def State.get (st : State) (reg : Nat) : Option (Nat × XKey) :=
  match st.regs[reg]? with
  | some (some id) => (st.objs[id]?).map fun k => (id, k)
  | _ => none

/-- one operation; `none` = malformed operation (register or network index out of range) -/
def step (pr : Prims) (nets : List Net) (st : State) : Op → Option State
  | .child r i =>
    if r ≥ st.regs.size then none else
    match st.get r with
    | none => some st.fail
    | some (_, k) => some (st.newObj (Bip32.child pr k i))
  | .neuter r =>
    if r ≥ st.regs.size then none else
    match st.get r with
    | none => some st.fail
    | some (id, k) =>
      if !k.isPrivate then some (st.alias id)
      else some (st.newObj (Bip32.neuter (nets.map fun n => (n.hdPriv, n.hdPub)) k))
  | .path r p =>
    if r ≥ st.regs.size then none else
    match st.get r with
    | none => some st.fail
    | some (id, k) =>
      if p.isEmpty then some (st.alias id)
      else some (st.newObj (Bip32.deriveChildFromPath pr k p))
  | .reparse r =>
    if r ≥ st.regs.size then none else
    match st.get r with
    | none => some st.fail
    | some (_, k) => some (st.newObj (Bip32.fromString pr (Bip32.toString pr k)))
  | .setNet r n =>
    if r ≥ st.regs.size then none else
    match nets[n]? with
    | none => none
    | some net =>
      match st.get r with
      | none => some st
      | some (id, k) => some { st with objs := st.objs.set! id (Bip32.setNet k net.hdPriv net.hdPub) }
  | .zero r =>
    if r ≥ st.regs.size then none else
    match st.get r with
    | none => some st
    | some (id, k) => some { st with objs := st.objs.set! id (Bip32.zero k) }

def run (pr : Prims) (nets : List Net) : State → List Op → Option State
  | st, [] => some st
  | st, op :: ops => match step pr nets st op with
    | none => none
    | some st' => run pr nets st' ops

/-- what the API lets a caller see of one key -/
structure Obs where
  str : Bytes
  isPrivate : Bool
  depth : Nat
  fingerprint : Nat
  address : Bytes
  pub : Option Spec.Pt
  priv : Option Nat
deriving DecidableEq

def observe (pr : Prims) (addrID : UInt8) (k : XKey) : Obs :=
  { str := Bip32.toString pr k, isPrivate := k.isPrivate, depth := k.depth,
    fingerprint := Bip32.parentFingerprint k, address := Bip32.address pr k addrID,
    pub := Bip32.ecPubKey k, priv := Bip32.ecPrivKey k }

end GoBk.XKeyStore
