import GoBk.Model.Wif
/-
  Model of /repo/bip32/extendedkey.go and derivationpaths.go at the level of byte values.
  (The slice-sharing/heap view used by C18's invariant is in Model/XKeyHeap.)
-/
namespace GoBk.Bip32
open GoBk Bytes Spec

structure XKey where
  key : Bytes          -- private: the scalar as stored (may be shorter than 32 bytes); public: 33 bytes
  chainCode : Bytes
  parentFP : Bytes
  version : Bytes
  childNum : Nat
  depth : Nat
  isPrivate : Bool
deriving DecidableEq, Repr, Inhabited, Hashable, BEq

inductive Err | invalidSeedLen | unusableSeed | hardFromPublic | maxDepth | invalidChild | badPubKey
  | unknownHDKeyID | notPrivate | invalidKeyLen | badChecksum | badPath
deriving DecidableEq, Repr, Inhabited

def N : Nat := Gen.c_N

def be32 (n : Nat) : Bytes := natBEpad 4 (n % 2^32)

def XKey.pubKeyBytes (k : XKey) : Bytes :=
  if !k.isPrivate then k.key
  else Ecdsa.serCompressed (Curve.scalarBaseMult k.key)

/-- `NewMaster(seed, net)` with the network's private version bytes. -/
def newMaster (pr : Prims) (seed : Bytes) (hdPriv : Bytes) : Except Err XKey :=
  if seed.length < Gen.k_minSeedBytes || seed.length > Gen.k_maxSeedBytes then .error .invalidSeedLen else
  let lr := pr.hmac512 Gen.masterKey seed
  let secretKey := lr.take 32
  let chainCode := lr.drop 32
  let n := beNat secretKey
  if n ≥ N || n = 0 then .error .unusableSeed else
  .ok { key := secretKey, chainCode := chainCode, parentFP := [0,0,0,0], version := hdPriv,
        childNum := 0, depth := 0, isPrivate := true }

/-- `Child(i)` (after the fix: a short private key is right-aligned in the 33-byte field). -/
def child (pr : Prims) (k : XKey) (i : Nat) : Except Err XKey :=
  if k.depth == Gen.k_maxUint8 then .error .maxDepth else
  let hardened := i ≥ Gen.k_hardenedKeyStart
  if !k.isPrivate && hardened then .error .hardFromPublic else
  let keyLen := 33
  let data33 : Bytes :=
    if hardened then
      -- offset := keyLen - len(key), at least 1; copy(data[offset:], key) (truncated at 37 bytes, then
      -- bytes 33.. are overwritten by the index)
      let offset := if keyLen - k.key.length < 1 then 1 else keyLen - k.key.length
      ((List.replicate offset 0 ++ k.key) ++ List.replicate keyLen 0).take keyLen
    else
      ((k.pubKeyBytes) ++ List.replicate keyLen 0).take keyLen
  let data := data33 ++ be32 i
  let ilr := pr.hmac512 k.chainCode data
  let il := ilr.take 32
  let childChainCode := ilr.drop 32
  let ilNum := beNat il
  if ilNum ≥ N || ilNum = 0 then .error .invalidChild else
  let parentFP := (pr.hash160 k.pubKeyBytes).take 4
  if k.isPrivate then
    let keyNum := beNat k.key
    let childKey := natBE ((ilNum + keyNum) % N)
    .ok { key := childKey, chainCode := childChainCode, parentFP := parentFP, version := k.version,
          childNum := i, depth := k.depth + 1, isPrivate := true }
  else
    let ilp := Curve.scalarBaseMult il
    if ilp.1 = 0 || ilp.2 = 0 then .error .invalidChild else
    match Ecdsa.parsePubKey k.key with
    | none => .error .badPubKey
    | some pub =>
      let c := Curve.add ilp pub
      .ok { key := Ecdsa.serCompressed c, chainCode := childChainCode, parentFP := parentFP,
            version := k.version, childNum := i, depth := k.depth + 1, isPrivate := false }

/-- registered HD version map: private id ↦ public id -/
abbrev Registry := List (Bytes × Bytes)

def Registry.lookup (reg : Registry) (v : Bytes) : Option Bytes :=
  if v.length != 4 then none else (reg.find? (·.1 == v)).map (·.2)

/-- `Neuter()`; for a public key the same key is returned (the caller keeps object identity). -/
def neuter (reg : Registry) (k : XKey) : Except Err XKey :=
  if !k.isPrivate then .ok k else
  match reg.lookup k.version with
  | none => .error .unknownHDKeyID
  | some v => .ok { key := k.pubKeyBytes, chainCode := k.chainCode, parentFP := k.parentFP, version := v,
                    childNum := k.childNum, depth := k.depth, isPrivate := false }

def zeroedString : Bytes := "zeroed extended key".toUTF8.toList

/-- `String()` -/
def toString (pr : Prims) (k : XKey) : Bytes :=
  if k.key.isEmpty then zeroedString else
  let ser := k.version ++ [UInt8.ofNat k.depth] ++ k.parentFP ++ be32 k.childNum ++ k.chainCode
  let ser := if k.isPrivate then ser ++ [0x00] ++ padLeft 32 k.key else ser ++ k.pubKeyBytes
  Base58.encode (ser ++ (pr.sha256d ser).take 4)

/-- `NewKeyFromString` -/
def fromString (pr : Prims) (s : Bytes) : Except Err XKey :=
  let decoded := Base58.decode s
  if decoded.length != Gen.k_serializedKeyLen + 4 then .error .invalidKeyLen else
  let payload := decoded.take (decoded.length - 4)
  let ck := decoded.drop (decoded.length - 4)
  if ck != (pr.sha256d payload).take 4 then .error .badChecksum else
  let version := payload.take 4
  let depth := (payload.getD 4 0).toNat
  let parentFP := (payload.drop 5).take 4
  let childNum := beNat ((payload.drop 9).take 4)
  let chainCode := (payload.drop 13).take 32
  let keyData := (payload.drop 45).take 33
  let isPrivate := keyData.headD 1 == 0x00
  if isPrivate then
    let kd := keyData.drop 1
    let n := beNat kd
    if n ≥ N || n = 0 then .error .unusableSeed else
    .ok { key := kd, chainCode, parentFP, version, childNum, depth, isPrivate := true }
  else
    match Ecdsa.parsePubKey keyData with
    | none => .error .badPubKey
    | some _ => .ok { key := keyData, chainCode, parentFP, version, childNum, depth, isPrivate := false }

/-- `SetNet` -/
def setNet (k : XKey) (hdPriv hdPub : Bytes) : XKey :=
  { k with version := if k.isPrivate then hdPriv else hdPub }

/-- `Zero()` -/
def zero (k : XKey) : XKey :=
  { key := [], chainCode := List.replicate k.chainCode.length 0, parentFP := List.replicate k.parentFP.length 0,
    version := [], childNum := 0, depth := 0, isPrivate := false }

def address (pr : Prims) (k : XKey) (addrID : UInt8) : Bytes := Wif.address pr k.pubKeyBytes addrID

def ecPubKey (k : XKey) : Option Pt := Ecdsa.parsePubKey k.pubKeyBytes
def ecPrivKey (k : XKey) : Option Nat := if k.isPrivate then some (beNat k.key) else none
def parentFingerprint (k : XKey) : Nat := beNat (k.parentFP.take 4)

/-! ### derivation paths -/

def isDigit (c : UInt8) : Bool := 48 ≤ c && c ≤ 57

def parseDec (ds : Bytes) : Nat := ds.foldl (fun acc c => acc * 10 + (c.toNat - 48)) 0

/-- `strconv.ParseUint(s, 10, 32)`: non-empty, digits only, value < 2^32. -/
def parseUint32 (s : Bytes) : Option Nat :=
  if s.isEmpty || !s.all isDigit then none else
  let v := parseDec s
  if v ≥ 2^32 then none else some v

/-- one component: regexp `^[0-9]+'{0,1}$` then `childInt` (with the range check on `n'`). -/
def childIndex (c : Bytes) : Option Nat :=
  let tick := c.getLast? == some 39
  let ds := if tick then c.dropLast else c
  if ds.isEmpty || !ds.all isDigit then none else
  match parseUint32 ds with
  | none => none
  | some t =>
    if tick then (if t ≥ Gen.k_hardenedKeyStart then none else some (t + Gen.k_hardenedKeyStart))
    else some t

def splitOn (sep : UInt8) (s : Bytes) : List Bytes :=
  let r := s.foldr (fun c (acc : Bytes × List Bytes) => if c == sep then ([], acc.1 :: acc.2) else (c :: acc.1, acc.2)) ([], [])
  r.1 :: r.2

/-- the index sequence a path denotes, or none if the syntax is rejected -/
def parsePath (p : Bytes) : Option (List Nat) :=
  if p.isEmpty then some [] else (splitOn 47 p).mapM childIndex

/-- `DeriveChildFromPath`: derives component by component, failing at the first bad component
(components after a failing `Child` are never inspected). -/
def derivePathAux (pr : Prims) : XKey → List Bytes → Except Err XKey
  | k, [] => .ok k
  | k, c :: cs =>
    match childIndex c with
    | none => .error .badPath
    | some i =>
      match child pr k i with
      | .error e => .error e
      | .ok k' => derivePathAux pr k' cs

def deriveChildFromPath (pr : Prims) (k : XKey) (p : Bytes) : Except Err XKey :=
  if p.isEmpty then .ok k else derivePathAux pr k (splitOn 47 p)

def decStr (n : Nat) : Bytes := (Nat.repr n).toUTF8.toList

/-- `DerivePath(i)` for a 64-bit counter -/
def derivePath (i : UInt64) : Bytes :=
  let a := (i >>> 33) ||| ((1 : UInt64) <<< 31)
  let b := ((i <<< 31) >>> 33) ||| ((1 : UInt64) <<< 31)
  let c := (i &&& (3 : UInt64)) ||| ((1 : UInt64) <<< 31)
  decStr a.toNat ++ [47] ++ decStr b.toNat ++ [47] ++ decStr c.toNat

/-- `DeriveNumber(path)` -/
def deriveNumber (p : Bytes) : Option UInt64 :=
  match splitOn 47 p with
  | [s0, s1, s2] =>
    match parseUint32 s0, parseUint32 s1, parseUint32 s2 with
    | some d1, some d2, some d3 =>
      let d1 := UInt64.ofNat d1; let d2 := UInt64.ofNat d2; let d3 := UInt64.ofNat d3
      let seed := (d1 - ((1 : UInt64) <<< 31)) <<< 33
      let seed := seed + ((d2 - ((1 : UInt64) <<< 31)) <<< 2)
      let seed := seed + (d3 - ((1 : UInt64) <<< 31))
      some seed
    | _, _, _ => none
  | _ => none

end GoBk.Bip32
