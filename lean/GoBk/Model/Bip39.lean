import GoBk.Model.Prims
import GoBk.Gen.English
/- Model of /repo/bip39/bip39.go. -/
namespace GoBk.Bip39
open GoBk Bytes

def bitsOfByte (b : UInt8) : List Bool :=
  [7,6,5,4,3,2,1,0].map fun t => (b &&& ((1 : UInt8) <<< (UInt8.ofNat t))) != 0

def bitsToNat (bs : List Bool) : Nat := bs.foldl (fun acc b => acc * 2 + (if b then 1 else 0)) 0

/-- word indices: `for i := 11; i <= ms; i += 11 { ParseInt(bitString[i-11:i], 2, 32) }` -/
def groups : Nat → List Bool → List Nat
  | 0, _ => []
  | n+1, bs => bitsToNat (bs.take 11) :: groups n (bs.drop 11)

def wordAt (i : Nat) : Bytes := Gen.english.getD i []

def mnemonicSalt (pass : Bytes) : Bytes := "mnemonic".toUTF8.toList ++ pass

/-- `Mnemonic(entropy, passcode)` → (sentence, seed) -/
def mnemonic (pr : Prims) (entropy pass : Bytes) : Option (Bytes × Bytes) :=
  let ent := entropy.length * 8
  if ent % 32 != 0 || ent < 128 || ent > 256 then none else
  let cs := ent / 32
  let ms := ent + cs
  let e' := entropy ++ [(pr.sha256 entropy).headD 0]
  let bits := e'.flatMap bitsOfByte
  let idxs := groups (ms / 11) bits
  let words := idxs.map wordAt
  let m := Bytes.ofString "" ++ (List.intercalate [32] words)
  some (m, pr.pbkdf2_512 m (mnemonicSalt pass) 2048 64)

/-- bytewise lexicographic `<` on strings (Go string comparison) -/
def bytesLt : Bytes → Bytes → Bool
  | [], [] => false
  | [], _ :: _ => true
  | _ :: _, [] => false
  | a :: as, b :: bs => if a < b then true else if b < a then false else bytesLt as bs

/-- `sort.Search(n, f)`: smallest index in [0,n) with `f`, else n (binary search as in the library). -/
def searchAux (f : Nat → Bool) : Nat → Nat → Nat → Nat
  | 0, i, _ => i
  | fuel+1, i, j =>
    if i < j then
      let h := (i + j) / 2
      if !f h then searchAux f fuel (h + 1) j else searchAux f fuel i h
    else i

/-- `sort.SearchStrings(English, w)` -/
def searchStrings (w : Bytes) : Nat :=
  let n := Gen.english.length
  searchAux (fun h => !(bytesLt (wordAt h) w)) (n + 1) 0 n

/-- does a Unicode white-space rune (unicode.IsSpace) start at the head of `s`? returns its width -/
def spaceWidth : Bytes → Nat
  | 0x09 :: _ | 0x0a :: _ | 0x0b :: _ | 0x0c :: _ | 0x0d :: _ | 0x20 :: _ => 1
  | 0xc2 :: 0x85 :: _ | 0xc2 :: 0xa0 :: _ => 2
  | 0xe1 :: 0x9a :: 0x80 :: _ => 3
  | 0xe2 :: 0x80 :: c :: _ => if (0x80 ≤ c && c ≤ 0x8a) || c == 0xa8 || c == 0xa9 || c == 0xaf then 3 else 0
  | 0xe2 :: 0x81 :: 0x9f :: _ => 3
  | 0xe3 :: 0x80 :: 0x80 :: _ => 3
  | _ => 0

/-- `strings.Fields`: maximal runs of non-space bytes. `cur` is the field being accumulated (reversed). -/
def fieldsAux : Nat → Bytes → Bytes → List Bytes → List Bytes
  | 0, _, cur, acc => (if cur.isEmpty then acc else cur.reverse :: acc).reverse
  | _, [], cur, acc => (if cur.isEmpty then acc else cur.reverse :: acc).reverse
  | fuel+1, c :: rest, cur, acc =>
    let w := spaceWidth (c :: rest)
    if w == 0 then fieldsAux fuel rest (c :: cur) acc
    else fieldsAux fuel ((c :: rest).drop w) [] (if cur.isEmpty then acc else cur.reverse :: acc)

def fields (s : Bytes) : List Bytes := fieldsAux (s.length + 1) s [] []

/-- `MnemonicToSeed(words, passcode)` (after the fix: an index equal to the list length is "not found"). -/
def mnemonicToSeed (pr : Prims) (words pass : Bytes) : Option Bytes :=
  let wl := fields words
  let wlen := wl.length
  if wlen % 3 != 0 || wlen < 12 || wlen > 24 then none else
  if wl.all (fun w => let idx := searchStrings w; idx < Gen.english.length && wordAt idx == w) then
    some (pr.pbkdf2_512 words (mnemonicSalt pass) 2048 64)
  else none

end GoBk.Bip39
