import GoBk.Model.Ecdsa
/-
  The random source as an oracle tape: the sequence of `Read` calls observed on `crypto/rand.Reader`.
  `some b` = a read that filled `b.length` bytes; `none` = a failed read.
  Models of the randomised functions are tape consumers (C19).
-/
namespace GoBk.Rng
open GoBk Bytes Spec

abbrev Tape := List (Option Bytes)

/-- `io.ReadFull(rand.Reader, buf)` with `len(buf) = n` against a reader that fills or fails. -/
def readFull (n : Nat) : Tape → Option (Bytes × Tape)
  | some b :: rest => if b.length == n then some (b, rest) else none
  | _ => none

/-- `randutil.MaybeReadByte`: the runtime may or may not consume one byte; its result is ignored. -/
def skipMaybeByte : Tape → Tape
  | some b :: rest => if b.length == 1 then rest else some b :: rest
  | none :: rest => none :: rest     -- a failed 1-byte read cannot be told apart; see `genKeyLoop`
  | [] => []

/-- `randFieldElement`: first 32-byte read whose value lies in [1, N-1]. -/
def genKeyLoop : Nat → Tape → Option (Nat × Tape)
  | 0, _ => none
  | fuel+1, t =>
    match readFull 32 t with
    | none => none
    | some (b, rest) =>
      let k := beNat b
      if k != 0 && k < Gen.c_N then some (k, rest) else genKeyLoop fuel rest

/-- `ecdsa.GenerateKey(S256(), rand.Reader)` (Go 1.23.5 generic-curve path): (D, public point, rest of tape) -/
def generateKey (t : Tape) : Option (Nat × Pt × Tape) :=
  match genKeyLoop (t.length + 1) (skipMaybeByte t) with
  | none => none
  | some (d, rest) => some (d, Curve.scalarBaseMult (natBE d), rest)

/-- `bip32.GenerateSeed(length)` -/
def generateSeed (length : Nat) (t : Tape) : Option (Bytes × Tape) :=
  if length < Gen.k_minSeedBytes || length > Gen.k_maxSeedBytes then none else readFull length t

/-- `bip39.GenerateEntropy(bits)` -/
def generateEntropy (bits : Nat) (t : Tape) : Option (Bytes × Tape) :=
  if bits % 32 != 0 || bits < 128 || bits > 256 then none else readFull (bits / 8) t

end GoBk.Rng
