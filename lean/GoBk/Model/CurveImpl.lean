import GoBk.Base.Bytes
import GoBk.Gen.Field
import GoBk.Gen.Consts
import GoBk.Gen.CurveIR
import GoBk.Gen.Table
import GoBk.Model.IR
/-
  Code-shaped model of the exported curve methods of /repo/bec/btcec.go: the `big.Int` glue, `splitK`,
  `NAF`, `moduloReduce` and the two scalar-multiplication loops are transcribed by hand; every field
  operation and every add/double formula they call is the REGENERATED code (Gen/Field, Gen/CurveIR run by
  `GoBk.IR`, Gen/Table).  The streams `impl.*` run this model against the real API on the same
  inputs as the API-level model `GoBk.Curve` (streams `curve.*`); the theorem relating the two models is
  the subject of Proofs/IR*.lean.
-/
namespace GoBk.CurveImpl
open GoBk Bytes GoBk.Gen.Field GoBk.Gen.CurveIR

def b32OfList (l : List UInt8) : B32 :=
  { b0 := l.getD 0 0, b1 := l.getD 1 0, b2 := l.getD 2 0, b3 := l.getD 3 0, b4 := l.getD 4 0, b5 := l.getD 5 0, b6 := l.getD 6 0, b7 := l.getD 7 0, b8 := l.getD 8 0, b9 := l.getD 9 0, b10 := l.getD 10 0, b11 := l.getD 11 0, b12 := l.getD 12 0, b13 := l.getD 13 0, b14 := l.getD 14 0, b15 := l.getD 15 0, b16 := l.getD 16 0, b17 := l.getD 17 0, b18 := l.getD 18 0, b19 := l.getD 19 0, b20 := l.getD 20 0, b21 := l.getD 21 0, b22 := l.getD 22 0, b23 := l.getD 23 0, b24 := l.getD 24 0, b25 := l.getD 25 0, b26 := l.getD 26 0, b27 := l.getD 27 0, b28 := l.getD 28 0, b29 := l.getD 29 0, b30 := l.getD 30 0, b31 := l.getD 31 0 }

/-- `SetByteSlice`: first 32 bytes, left-padded to 32, then the regenerated `SetBytes`. -/
def setByteSlice (b : Bytes) : FV := setBytes (b32OfList (padLeft 32 (b.take 32)))

def fieldOne : FV := setInt 1
def fieldB : FV := setByteSlice (natBE Gen.c_B)
def beta : FV := setByteSlice (natBEpad 32 Gen.c_beta)
def consts : FV × FV × FV := (fieldOne, fieldB, beta)

abbrev Pt := Nat × Nat
abbrev Jac := FV × FV × FV

/-- `bigAffineToField` -/
def bigAffineToField (a : Pt) : FV × FV := (setByteSlice (natBE a.1), setByteSlice (natBE a.2))

/-- `x.Bytes()` of a field value read back as a big integer -/
def fvNat (f : FV) : Nat := beNat (bytes f).toList

/-- `fieldJacobianToBigAffine` -/
def toBigAffine (p : Jac) : Pt :=
  match IR.runFn prog consts fn_fieldJacobianToBigAffine [p.1, p.2.1, p.2.2] [0, 1, 2] with
  | [x, y, _] => (fvNat x, fvNat y)
  | _ => (0, 0)

/-- `addJacobian(q, p, q)`: the accumulator is both first input and output (as in both loops) -/
def addAcc (q p : Jac) : Jac :=
  match IR.runFn prog consts fn_addJacobian [q.1, q.2.1, q.2.2, p.1, p.2.1, p.2.2, q.1, q.2.1, q.2.2]
          [0, 1, 2, 3, 4, 5, 0, 1, 2] with
  | [x, y, z, _, _, _, _, _, _] => (x, y, z)
  | _ => q

/-- `doubleJacobian(q, q)` in place -/
def doubleAcc (q : Jac) : Jac :=
  match IR.runFn prog consts fn_doubleJacobian [q.1, q.2.1, q.2.2, q.1, q.2.1, q.2.2] [0, 1, 2, 0, 1, 2] with
  | [x, y, z, _, _, _] => (x, y, z)
  | _ => q

/-- `Add` -/
def add (a b : Pt) : Pt :=
  if a.1 = 0 && a.2 = 0 then b else
  if b.1 = 0 && b.2 = 0 then a else
  let (fx1, fy1) := bigAffineToField a
  let (fx2, fy2) := bigAffineToField b
  match IR.runFn prog consts fn_addJacobian [fx1, fy1, setInt 1, fx2, fy2, setInt 1, zero, zero, zero]
          [0, 1, 2, 3, 4, 5, 6, 7, 8] with
  | [_, _, _, _, _, _, x3, y3, z3] => toBigAffine (x3, y3, z3)
  | _ => (0, 0)

/-- `Double` -/
def double (a : Pt) : Pt :=
  if a.2 = 0 then (0, 0) else
  let (fx1, fy1) := bigAffineToField a
  match IR.runFn prog consts fn_doubleJacobian [fx1, fy1, setInt 1, zero, zero, zero] [0, 1, 2, 3, 4, 5] with
  | [_, _, _, x3, y3, z3] => toBigAffine (x3, y3, z3)
  | _ => (0, 0)

/-- `IsOnCurve` -/
def isOnCurve (a : Pt) : Bool :=
  let (fx, fy) := bigAffineToField a
  (IR.runFnFull prog consts fn_isOnCurve [fx, fy] [0, 1] (fun _ => false)).flags 0

/-- `moduloReduce` -/
def moduloReduce (k : Bytes) : Bytes :=
  if k.length > Gen.c_BitSize / 8 then natBE (beNat k % Gen.c_N) else k

/-- `splitK`: (|k1| bytes, |k2| bytes, sign k1, sign k2); `big.Int.Div` is Euclidean division -/
def splitK (k : Bytes) : Bytes × Bytes × Int × Int :=
  let bigK : Int := beNat k
  let n : Int := Gen.c_N
  let c1 := (Gen.c_b2 * bigK).ediv n
  let c2 := (Gen.c_b1 * bigK).ediv n
  let k1 := bigK - c1 * Gen.c_a1 + c2 * Gen.c_a2
  let k2 := c2 * Gen.c_b2 - c1 * Gen.c_b1
  (natBE k1.natAbs, natBE k2.natAbs, Int.sign k1, Int.sign k2)

/-- bit `j` of byte `b` -/
def bit (b : UInt8) (j : Nat) : Bool := (b >>> (UInt8.ofNat j)) &&& 1 == 1

/-- state of the NAF automaton while scanning bits from least significant -/
structure NafSt where
  carry : Bool
  pos : List Bool      -- emitted digits +1, least significant first
  neg : List Bool      -- emitted digits -1

/-- one step of `NAF` on the current bit and the next-higher bit -/
def nafStep (st : NafSt) (cur next : Bool) : NafSt :=
  if st.carry then
    if cur then { st with pos := false :: st.pos, neg := false :: st.neg }
    else if next then { st with pos := false :: st.pos, neg := true :: st.neg }
    else { carry := false, pos := true :: st.pos, neg := false :: st.neg }
  else if cur then
    if next then { carry := true, pos := false :: st.pos, neg := true :: st.neg }
    else { st with pos := true :: st.pos, neg := false :: st.neg }
  else { st with pos := false :: st.pos, neg := false :: st.neg }

/-- bits of a byte string, least significant first -/
def bitsLE (k : Bytes) : List Bool := k.reverse.flatMap fun b => (List.range 8).map (bit b)

def packBitsAux : Nat → List Bool → Bytes
  | 0, _ => []
  | _, [] => []
  | fuel+1, bs =>
    let byte := (bs.take 8).foldl (fun acc b => acc * 2 + (if b then 1 else 0)) (0 : Nat)
    UInt8.ofNat byte :: packBitsAux fuel (bs.drop 8)

/-- pack bits (most significant first, a multiple of 8 of them) into bytes -/
def packBitsBE (bs : List Bool) : Bytes := packBitsAux bs.length bs

/-- `NAF(k)`: two byte strings (positive and negative digits), one byte longer when the carry leaves the top -/
def naf (k : Bytes) : Bytes × Bytes :=
  let bits := bitsLE k
  let rec go : List Bool → NafSt → NafSt
    | [], st => st
    | [c], st => nafStep st c false
    | c :: n :: rest, st => go (n :: rest) (nafStep st c n)
  let st := go bits { carry := false, pos := [], neg := [] }
  -- `pos`/`neg` now hold the digits most significant first
  if st.carry then
    ([1] ++ packBitsBE st.pos, [0] ++ packBitsBE st.neg)
  else (packBitsBE st.pos, packBitsBE st.neg)

/-- the interleaved double-and-add loop of `ScalarMult` over the four NAF byte strings -/
def smulLoop (p1 p1n p2 p2n : Jac) : List (Bool × Bool × Bool × Bool) → Jac → Jac
  | [], q => q
  | (a, b, c, d) :: rest, q =>
    let q := doubleAcc q
    let q := if a then addAcc q p1 else if b then addAcc q p1n else q
    let q := if c then addAcc q p2 else if d then addAcc q p2n else q
    smulLoop p1 p1n p2 p2n rest q

def bitsBE (k : Bytes) : List Bool := k.flatMap fun b => (List.range 8).reverse.map (bit b)

/-- `ScalarMult(Bx, By, k)` -/
def scalarMult (bpt : Pt) (k : Bytes) : Pt :=
  let (k1, k2, s1, s2) := splitK (moduloReduce k)
  let (p1x, p1y) := bigAffineToField bpt
  let p1yNeg := negateVal p1y 1
  let p1z := setInt 1
  let p2x := mul2 p1x beta
  let p2y := p1y
  let p2yNeg := negateVal p2y 1
  let (p1y, p1yNeg) := if s1 == -1 then (p1yNeg, p1y) else (p1y, p1yNeg)
  let (p2y, p2yNeg) := if s2 == -1 then (p2yNeg, p2y) else (p2y, p2yNeg)
  let (k1p, k1n) := naf k1
  let (k2p, k2n) := naf k2
  let m := max k1p.length k2p.length
  let padTo := fun (b : Bytes) => List.replicate (m - b.length) (0 : UInt8) ++ b
  let steps := List.zip (bitsBE (padTo k1p)) (List.zip (bitsBE (padTo k1n)) (List.zip (bitsBE (padTo k2p)) (bitsBE (padTo k2n))))
  let q := smulLoop (p1x, p1y, p1z) (p1x, p1yNeg, p1z) (p2x, p2y, p1z) (p2x, p2yNeg, p1z) steps (zero, zero, zero)
  toBigAffine q

/-- `ScalarBaseMult(k)`: one table entry per byte -/
def scalarBaseMult (k : Bytes) : Pt :=
  let newK := moduloReduce k
  let diff := 32 - newK.length
  let q := (newK.zipIdx).foldl (fun q (bi : UInt8 × Nat) =>
      addAcc q (Gen.Table.get (diff + bi.2) bi.1.toNat 0, Gen.Table.get (diff + bi.2) bi.1.toNat 1,
                Gen.Table.get (diff + bi.2) bi.1.toNat 2)) (zero, zero, zero)
  toBigAffine q

end GoBk.CurveImpl
