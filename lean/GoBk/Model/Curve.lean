import GoBk.Base.Bytes
import GoBk.Spec.Secp
import GoBk.Spec.Fast
import GoBk.Gen.Consts
/-
  API-level model of the exported methods of `KoblitzCurve` (/repo/bec/btcec.go) on affine
  big integers, expressed with the reference group law `GoBk.Spec`.  This is the abstraction
  that property C01 states and that every higher-level model (ECDSA, BIP32, ECIES, …) uses.
  The refinement of the real Jacobian/field code to this level is the subject of
  Gen/Field, Gen/CurveIR and Proofs/*.
-/
namespace GoBk.Curve
open GoBk Bytes Spec

/-- `moduloReduce`: scalars longer than 32 bytes are reduced mod N first. -/
def moduloReduce (k : Bytes) : Bytes :=
  if k.length > 32 then natBE (beNat k % Gen.c_N) else k

def add (a b : Pt) : Pt := padd a b
def double (a : Pt) : Pt := pdouble a
/-- `ScalarMult`: `k • a`.  On valid points the executable takes the Jacobian ladder `Fast.smul`,
proved equal to the reference `Spec.smul` (`Fast.smul_eq`); see `Curve.scalarMult_def`. -/
def scalarMult (a : Pt) (k : Bytes) : Pt :=
  if valid a = true then Fast.smul (beNat (moduloReduce k)) a else smul (beNat (moduloReduce k)) a
/-- `ScalarBaseMult`: `k • G` (`Fast.smulG_eq`; see `Curve.scalarBaseMult_def`). -/
def scalarBaseMult (k : Bytes) : Pt := Fast.smulG (beNat (moduloReduce k))
def isOnCurve (a : Pt) : Bool := onCurve a

end GoBk.Curve
