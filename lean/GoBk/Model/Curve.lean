import GoBk.Base.Bytes
import GoBk.Spec.Secp
import GoBk.Gen.Consts
/-
  API-level model of the exported methods of `KoblitzCurve` (/repo/bec/btcec.go) on affine
  big integers, expressed with the reference group law `GoBk.Spec`.  This is the abstraction
  that property C01 states and that every higher-level model (ECDSA, BIP32, ECIES, …) uses.
  The refinement of the real Jacobian/field code to this level is the subject of
  Gen/Field, Gen/CurveIR and Proofs/*.
-/
namespace GoBk.Curve
open GoBk Bytes Spec

/-- `moduloReduce`: scalars longer than 32 bytes are reduced mod N first. -/
def moduloReduce (k : Bytes) : Bytes :=
  if k.length > 32 then natBE (beNat k % Gen.c_N) else k

def add (a b : Pt) : Pt := padd a b
def double (a : Pt) : Pt := pdouble a
def scalarMult (a : Pt) (k : Bytes) : Pt := smul (beNat (moduloReduce k)) a
def scalarBaseMult (k : Bytes) : Pt := smul (beNat (moduloReduce k)) G
def isOnCurve (a : Pt) : Bool := onCurve a

end GoBk.Curve
