import GoBk.Model.Curve
import GoBk.Model.Prims
/-
  Model of /repo/bec/signature.go (signRFC6979, nonceRFC6979, hashToInt, Verify via Go 1.23.5
  crypto/ecdsa verifyLegacy, recoverKeyFromSignature, SignCompact, RecoverCompact),
  /repo/bec/pubkey.go (decompressPoint, ParsePubKey, Serialise*) and /repo/bec/privkey.go.
-/
namespace GoBk.Ecdsa
open GoBk Bytes Spec

def N : Nat := Gen.c_N
def Pp : Nat := Gen.c_P
def halfOrder : Nat := N / 2

/-- `hashToInt` for a 256-bit order: the first 32 bytes as a big-endian number (no shift is ever needed). -/
def hashToInt (h : Bytes) : Nat :=
  let h := if h.length > 32 then h.take 32 else h
  let ret := beNat h
  let excess : Int := (h.length : Int) * 8 - 256
  if excess > 0 then ret >>> excess.toNat else ret

/-- `int2octets(v, rolen)` -/
def int2octets (v : Nat) (rolen : Nat) : Bytes :=
  let out := natBE v
  if out.length < rolen then List.replicate (rolen - out.length) 0 ++ out
  else if out.length > rolen then out.drop (out.length - rolen)
  else out

/-- `bits2octets`: subtract N once if that does not go negative. -/
def bits2octets (h : Bytes) (rolen : Nat) : Bytes :=
  let z1 := hashToInt h
  if z1 < N then int2octets z1 rolen else int2octets (z1 - N) rolen

/-- the retry loop of `nonceRFC6979`; `fuel` bounds the number of candidates tried. -/
def nonceLoop (pr : Prims) : Nat → Bytes → Bytes → Option Nat
  | 0, _, _ => none
  | fuel+1, k, v =>
    let v := pr.hmac256 k v           -- one 32-byte block suffices: len(t)*8 = 256 ≥ qlen
    let secret := hashToInt v
    if secret ≥ 1 ∧ secret < N then some secret
    else
      let k := pr.hmac256 k (v ++ [0x00])
      let v := pr.hmac256 k v
      nonceLoop pr fuel k v

def nonceRFC6979 (pr : Prims) (fuel : Nat) (d : Nat) (h : Bytes) : Option Nat :=
  let bx := int2octets d 32 ++ bits2octets h 32
  let v := List.replicate 32 (0x01 : UInt8)
  let k := List.replicate 32 (0x00 : UInt8)
  let k := pr.hmac256 k (v ++ [0x00] ++ bx)
  let v := pr.hmac256 k v
  let k := pr.hmac256 k (v ++ [0x01] ++ bx)
  let v := pr.hmac256 k v
  nonceLoop pr fuel k v

/-- `signRFC6979`; `none` = an error is returned. -/
def sign (pr : Prims) (fuel : Nat) (d : Nat) (h : Bytes) : Option (Nat × Nat) :=
  match nonceRFC6979 pr fuel d h with
  | none => none
  | some k =>
    let inv := invMod k N
    let r := (Curve.scalarBaseMult (natBE k)).1 % N
    if r = 0 then none else
    let e := hashToInt h
    let s := ((d * r + e) * inv) % N
    let s := if s > halfOrder then N - s else s
    if s = 0 then none else some (r, s)

/-- `Signature.Verify` = ecdsa.Verify → verifyLegacy (Go 1.23.5) on an arbitrary curve. -/
def verify (q : Pt) (h : Bytes) (r s : Int) : Bool :=
  if r ≤ 0 || s ≤ 0 then false else
  let r := r.toNat
  let s := s.toNat
  if r ≥ N || s ≥ N then false else
  let e := hashToInt h
  let w := invMod s N
  let u1 := (e * w) % N
  let u2 := (r * w) % N
  let p1 := Curve.scalarBaseMult (natBE u1)
  let p2 := Curve.scalarMult q (natBE u2)
  let x := Curve.add p1 p2
  if x.1 = 0 && x.2 = 0 then false else
  x.1 % N == r

/-- `decompressPoint` at value level. -/
def decompressPoint (x : Nat) (ybit : Bool) : Option Nat :=
  let x := x % 2^256 % Pp
  let c := (x * x % Pp * x + 7) % Pp
  let y := sqrtCand c
  let y := if ybit != (y % 2 == 1) then (Pp - y) % Pp else y
  if y * y % Pp != c then none
  else if ybit != (y % 2 == 1) then none
  else some y

/-- `ParsePubKey` -/
def parsePubKey (b : Bytes) : Option Pt :=
  if b.isEmpty then none else
  let fmt0 := b.headD 0
  let ybit := (fmt0 &&& 0x1) == 0x1
  let fmt := fmt0 &&& (~~~ (0x1 : UInt8))
  if b.length == Gen.k_pubKeyBytesLenUncompressed then
    if fmt.toNat != Gen.k_pubkeyUncompressed && fmt.toNat != Gen.k_pubkeyHybrid then none else
    if fmt.toNat == Gen.k_pubkeyUncompressed && ybit then none else    -- prefix 0x05 (fix dbf0f4d)
    let x := beNat ((b.drop 1).take 32)
    let y := beNat (b.drop 33)
    if fmt.toNat == Gen.k_pubkeyHybrid && ybit != (y % 2 == 1) then none else
    if x ≥ Pp then none else
    if y ≥ Pp then none else
    if !Curve.isOnCurve (x, y) then none else some (x, y)
  else if b.length == Gen.k_pubKeyBytesLenCompressed then
    if fmt.toNat != Gen.k_pubkeyCompressed then none else
    let x := beNat ((b.drop 1).take 32)
    if x ≥ Pp then none else
    match decompressPoint x ybit with
    | none => none
    | some y => some (x, y)
  else none

def serUncompressed (q : Pt) : Bytes := [0x04] ++ natBEpad 32 q.1 ++ natBEpad 32 q.2
def serCompressed (q : Pt) : Bytes := [if q.2 % 2 == 1 then 0x03 else 0x02] ++ natBEpad 32 q.1
def serHybrid (q : Pt) : Bytes := [if q.2 % 2 == 1 then 0x07 else 0x06] ++ natBEpad 32 q.1 ++ natBEpad 32 q.2

/-- `PrivKeyFromBytes`: (D, public point) -/
def privKeyFromBytes (pk : Bytes) : Nat × Pt := (beNat pk, Curve.scalarBaseMult pk)
def privSerialise (d : Nat) : Bytes := natBEpad 32 d

/-- `recoverKeyFromSignature` -/
def recoverKey (r s : Nat) (msg : Bytes) (iter : Nat) (doChecks : Bool) : Option Pt :=
  if r ≥ N then none else
  if r = 0 then none else
  if s ≥ N then none else
  if s = 0 then none else
  let rx := N * (iter / 2) + r
  if rx ≥ Pp then none else
  match decompressPoint rx (iter % 2 == 1) with
  | none => none
  | some ry =>
    let R : Pt := (rx, ry)
    if doChecks && !(isInf (Curve.scalarMult R (natBE N))) then none else
    let e := hashToInt msg
    let invr := invMod r N
    let invrS := (invr * s) % N
    let sR := Curve.scalarMult R (natBE invrS)
    let e := ((N - e % N) % N * invr) % N
    let minuseG := Curve.scalarBaseMult (natBE e)
    let q := Curve.add sR minuseG
    if q.1 = 0 && q.2 = 0 then none else some q

def compactLoop (r s : Nat) (h : Bytes) (pub : Pt) (compressed : Bool) : Nat → Nat → Option Bytes
  | 0, _ => none
  | fuel+1, i =>
    match recoverKey r s h i true with
    | some pk =>
      if pk.1 == pub.1 && pk.2 == pub.2 then
        some ([UInt8.ofNat (27 + i + (if compressed then 4 else 0))] ++ natBEpad 32 r ++ natBEpad 32 s)
      else compactLoop r s h pub compressed fuel (i+1)
    | none => compactLoop r s h pub compressed fuel (i+1)

/-- `SignCompact(curve, key, hash, isCompressedKey)`; the key is (D, public point as stored in the key). -/
def signCompact (pr : Prims) (fuel : Nat) (d : Nat) (pub : Pt) (h : Bytes) (compressed : Bool) : Option Bytes :=
  match sign pr fuel d h with
  | none => none
  | some (r, s) => compactLoop r s h pub compressed ((Gen.c_H + 1) * 2) 0

/-- `RecoverCompact` -/
def recoverCompact (sig h : Bytes) : Option (Pt × Bool) :=
  let bitlen := (Gen.c_BitSize + 7) / 8
  if sig.length != 1 + bitlen * 2 then none else
  let b0 : UInt8 := sig.headD 0
  let iteration := ((b0 - 27) &&& (~~~ (4 : UInt8))).toNat
  let r := beNat ((sig.drop 1).take bitlen)
  let s := beNat (sig.drop (bitlen + 1))
  match recoverKey r s h iteration false with
  | none => none
  | some q => some (q, ((b0 - 27) &&& 4) == 4)

end GoBk.Ecdsa
