import GoBk.Model.CurveImpl
/-
  Driver ops `impl.*`: the code-shaped curve model (hand-transcribed loops and big.Int glue around the
  REGENERATED field code, formulas and table) on the same inputs as the API-level `curve.*` ops.
-/
namespace Driver
open GoBk GoBk.Bytes

private def unhexI (s : String) : Option Bytes := if s == "-" then some [] else ofHex s
private def unnatI (s : String) : Option Nat := (unhexI (if s.length % 2 == 1 then "0" ++ s else s)).map beNat
private def nhxI (n : Nat) : String := String.ofList (Nat.toDigits 16 n)
private def hxI (b : Bytes) : String := if b.isEmpty then "-" else toHex b
private def ptI (p : Nat × Nat) : String := nhxI p.1 ++ " " ++ nhxI p.2

def runImplOp (op : String) (a : List String) : Option String :=
  match op, a with
  | "impl.add", [x1, y1, x2, y2] => do
    let x1 ← unnatI x1; let y1 ← unnatI y1; let x2 ← unnatI x2; let y2 ← unnatI y2
    pure ("ok " ++ ptI (CurveImpl.add (x1, y1) (x2, y2)))
  | "impl.double", [x, y] => do
    let x ← unnatI x; let y ← unnatI y
    pure ("ok " ++ ptI (CurveImpl.double (x, y)))
  | "impl.smul", [x, y, k] => do
    let x ← unnatI x; let y ← unnatI y; let k ← unhexI k
    pure ("ok " ++ ptI (CurveImpl.scalarMult (x, y) k))
  | "impl.sbmul", [k] => do
    let k ← unhexI k
    pure ("ok " ++ ptI (CurveImpl.scalarBaseMult k))
  | "impl.oncurve", [x, y] => do
    let x ← unnatI x; let y ← unnatI y
    pure ("ok " ++ (if CurveImpl.isOnCurve (x, y) then "1" else "0"))
  | "impl.splitk", [k] => do
    let k ← unhexI k
    let (k1, k2, s1, s2) := CurveImpl.splitK k
    pure ("ok " ++ hxI k1 ++ " " ++ hxI k2 ++ " " ++ toString s1 ++ " " ++ toString s2)
  | "impl.naf", [k] => do
    let k ← unhexI k
    let (p, n) := CurveImpl.naf k
    pure ("ok " ++ hxI p ++ " " ++ hxI n)
  | _, _ => none

end Driver
