import GoBk.Base.Bytes
/-
  Driver ops `mem.*` (C16): heap-level models of the argument-handling of exported functions,
  run on a canary-backed window; prints the whole backing array afterwards.
-/
namespace Driver

def runMemOp (_op : String) (_args : List String) : Option String := none

end Driver
