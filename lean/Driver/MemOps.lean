import GoBk.Model.RealPrims
import GoBk.Model.HeapFns
/-
  Driver ops `mem.*` (C16): correspondence of the heap-level models (GoBk/Model/HeapFns.lean) with
  the real code.

      mem.<fn> <prefixlen> <spare> <datahex> [more args]

  Both sides build ONE backing array = `prefixlen` canary bytes ‖ data ‖ `spare` canary bytes (canary
  byte at index i = 0xA5 xor (i mod 256)), pass the window
  `backing[prefixlen : prefixlen+len(data) : prefixlen+len(data)+spare]` as the slice argument, run
  the function and print

      ok <hex of the whole backing array afterwards> <result | err>

  Here the backing array comes from running the HEAP-LEVEL model on the heap `#[backing]` (an append
  into the spare capacity or an in-place write would show up in it); the result is the VALUE-level
  model's; where the heap-level model also produces the result the two are compared and
  `model-mismatch` is printed when they differ.
-/
namespace Driver
open GoBk GoBk.Bytes GoBk.Heap GoBk.HeapFns GoBk.Spec

def mpr : Prims := realPrims
def mFuel : Nat := 64

def mhx (b : Bytes) : String := if b.isEmpty then "-" else toHex b
def mnhx (n : Nat) : String := String.ofList (Nat.toDigits 16 n)
def munhex (s : String) : Option Bytes := if s == "-" then some [] else ofHex s
def munnat (s : String) : Option Nat := (munhex (if s.length % 2 == 1 then "0" ++ s else s)).map beNat
def munint (s : String) : Option Int :=
  if s.startsWith "-" && s != "-" then (munnat (s.drop 1).toString).map fun n => - (n : Int)
  else (munnat s).map fun n => (n : Int)
def muntape (s : String) : Option Rng.Tape :=
  if s == "-" then some []
  else (s.splitOn ",").mapM fun r => if r == "!" then some none else (munhex r).map some
def mptStr (p : Pt) : String := mnhx p.1 ++ " " ++ mnhx p.2
def mb2s (b : Bool) : String := if b then "1" else "0"

def canary (i : Nat) : UInt8 := 0xA5 ^^^ UInt8.ofNat (i % 256)

/-- the canary-backed array holding `data` at `[p, p+len)` with `spare` canary bytes behind it -/
def mkBacking (p spare : Nat) (data : Bytes) : Bytes :=
  (List.range p).map canary ++ data ++ (List.range spare).map (fun i => canary (p + data.length + i))

/-- the window `backing[p : p+len : p+len+spare]` as a slice of array `a` -/
def mkWindow (a p spare : Nat) (data : Bytes) : Slice := ⟨a, p, data.length, data.length + spare⟩

structure Win where
  heap : Heap
  s : Slice

def mkWin (p spare : Nat) (data : Bytes) : Win := ⟨⟨#[mkBacking p spare data]⟩, mkWindow 0 p spare data⟩

def okLine (h : Heap) (res : String) : String := "ok " ++ mhx (h.get 0) ++ " " ++ res

/-- compare the heap-level result with the value-level one -/
def agree (hv vv : Option Bytes) (show_ : Bytes → String) : String :=
  if hv != vv then "model-mismatch" else
  match vv with
  | some b => show_ b
  | none => "err"

def chainCodeFix : Bytes := (List.range 32).map fun i => UInt8.ofNat (i * 7 + 1)

/-- a key object whose `key` slice is the window; the other fields are ordinary full arrays 1,2,3 -/
def mkXKey (p spare : Nat) (key : Bytes) (isPriv : Bool) : Heap × XKeyH :=
  let version : Bytes := if isPriv then [0x04, 0x88, 0xad, 0xe4] else [0x04, 0x88, 0xb2, 0x1e]
  let h : Heap := ⟨#[mkBacking p spare key, chainCodeFix, [0,0,0,0], version]⟩
  (h, { key := mkWindow 0 p spare key, chainCode := ⟨1, 0, 32, 32⟩, parentFP := ⟨2, 0, 4, 4⟩,
        version := ⟨3, 0, 4, 4⟩, childNum := 0, depth := 0, isPrivate := isPriv })

def runMemOp' (op : String) (p spare : Nat) (data : Bytes) (a : List String) : Option String :=
  let w := mkWin p spare data
  match op, a with
  | "mem.encrypt", [x, y, t] => do
    let x ← munnat x; let y ← munnat y; let t ← muntape t
    let r := encrypt mpr w.heap (x, y) w.s t
    let vv := (Ecies.encrypt mpr (x, y) data t).map (·.1)
    pure (okLine r.heap (agree (r.val.map r.heap.read) vv mhx))
  | "mem.encrypt_old", [x, y, t] => do      -- the pre-fix padding step, for the negative test
    let x ← munnat x; let y ← munnat y; let t ← muntape t
    let r := encrypt_old mpr w.heap (x, y) w.s t
    pure (okLine r.heap (match r.val.map r.heap.read with | some c => mhx c | none => "err"))
  | "mem.decrypt", [d] => do
    let d ← munnat d
    let r := decrypt mpr w.heap d w.s
    pure (okLine r.heap (agree (r.val.map r.heap.read) (Ecies.decrypt mpr d data) mhx))
  | "mem.mnemonic", [pass] => do
    let pass ← munhex pass
    let r := mnemonic mpr w.heap w.s pass
    let vv := Bip39.mnemonic mpr data pass
    pure (okLine r.heap (if r.val != vv then "model-mismatch" else
      match vv with | some (m, s) => mhx m ++ " " ++ mhx s | none => "err"))
  | "mem.mnemonic_old", [pass] => do
    let pass ← munhex pass
    let r := mnemonic_old mpr w.heap w.s pass
    pure (okLine r.heap (match r.val with | some (m, s) => mhx m ++ " " ++ mhx s | none => "err"))
  | "mem.cfbdec", [k] => do
    let k ← munhex k
    let r := cryptoDecrypt mpr w.heap k w.s
    pure (okLine r.heap (agree r.val (Ecies.cfbDecrypt mpr k data) mhx))
  | "mem.cfbdec_old", [k] => do
    let k ← munhex k
    let r := cryptoDecrypt_old mpr w.heap k w.s
    pure (okLine r.heap (match r.val with | some b => mhx b | none => "err"))
  | "mem.cfbenc", [k, t] => do
    let k ← munhex k; let t ← muntape t
    let r := cryptoEncrypt mpr w.heap k w.s t
    let vv := (Ecies.cfbEncrypt mpr k data t).map (·.1)
    pure (okLine r.heap (agree (r.val.map r.heap.read) vv mhx))
  | "mem.checkenc", [v] => do
    let v ← v.toNat?
    let r := checkEncode mpr w.heap w.s (UInt8.ofNat v)
    pure (okLine r.heap (agree (some r.val) (some (Base58.checkEncode mpr data (UInt8.ofNat v))) mhx))
  | "mem.checkdec", [] => do
    -- the argument is a string: `string(window)` is a copy, the window itself is not passed
    let r := checkDecode mpr w.heap (w.heap.read w.s)
    let hv := r.val.map fun (s, v) => (r.heap.read s, v)
    let vv := Base58.checkDecode mpr data
    pure (okLine r.heap (if hv != vv then "model-mismatch" else
      match vv with | some (pl, v) => mhx pl ++ " " ++ toString v.toNat | none => "err"))
  | "mem.sign", [d] => do
    let d ← munnat d
    let r := readOnly (Ecdsa.sign mpr mFuel d) w.heap w.s
    pure (okLine r.heap (match r.val with | some (r, s) => mnhx r ++ " " ++ mnhx s | none => "err"))
  | "mem.signcompact", [d, c] => do
    let d ← munnat d
    let pub := Curve.scalarBaseMult (natBE d)
    let r := signCompact mpr mFuel w.heap d pub w.s (c == "1")
    pure (okLine r.heap (agree (r.val.map r.heap.read) (Ecdsa.signCompact mpr mFuel d pub data (c == "1")) mhx))
  | "mem.verify", [x, y, r, s] => do
    let x ← munnat x; let y ← munnat y; let r ← munint r; let s ← munint s
    let res := readOnly (fun hsh => Ecdsa.verify (x, y) hsh r s) w.heap w.s
    pure (okLine res.heap (mb2s res.val))
  | "mem.parsepub", [] =>
    let r := readOnly Ecdsa.parsePubKey w.heap w.s
    some (okLine r.heap (match r.val with | some q => mptStr q | none => "err"))
  | "mem.parsesig", [] =>
    let r := readOnly Der.parseLax w.heap w.s
    some (okLine r.heap (match r.val with | some (r, s) => mnhx r ++ " " ++ mnhx s | none => "err"))
  | "mem.parseder", [] =>
    let r := readOnly Der.parseDER w.heap w.s
    some (okLine r.heap (match r.val with | some (r, s) => mnhx r ++ " " ++ mnhx s | none => "err"))
  | "mem.sbmul", [] =>
    let r := readOnly Curve.scalarBaseMult w.heap w.s
    some (okLine r.heap (mptStr r.val))
  | "mem.smul", [x, y] => do
    let x ← munnat x; let y ← munnat y
    let r := readOnly (Curve.scalarMult (x, y)) w.heap w.s
    pure (okLine r.heap (mptStr r.val))
  | "mem.privbytes", [] =>
    let r := readOnly Ecdsa.privKeyFromBytes w.heap w.s
    some (okLine r.heap (mhx (Ecdsa.privSerialise r.val.1) ++ " " ++ mptStr r.val.2))
  | "mem.newmaster", [] =>
    let r := readOnly (fun seed => Bip32.newMaster mpr seed [0x04, 0x88, 0xad, 0xe4]) w.heap w.s
    some (okLine r.heap (match r.val with | .ok k => mhx (Bip32.toString mpr k) | .error _ => "err"))
  | "mem.b58enc", [] =>
    let r := readOnly Base58.encode w.heap w.s
    some (okLine r.heap (mhx r.val))
  | "mem.hash160", [] =>
    let r := readOnly mpr.hash160 w.heap w.s
    some (okLine r.heap (mhx r.val))
  | "mem.naf", [] =>
    let r := naf w.heap w.s
    some (okLine r.heap (mhx (r.heap.read r.val.1) ++ " " ++ mhx (r.heap.read r.val.2)))
  | "mem.recover", [hsh] => do
    -- two windows: the signature in array 0, the hash in array 1 (same prefix and spare)
    let hsh ← munhex hsh
    let h : Heap := ⟨#[mkBacking p spare data, mkBacking p spare hsh]⟩
    let sg := mkWindow 0 p spare data
    let hs := mkWindow 1 p spare hsh
    let res := Ecdsa.recoverCompact (h.read sg) (h.read hs)
    pure ("ok " ++ mhx (h.get 0) ++ " " ++ mhx (h.get 1) ++ " " ++
      (match res with | some (q, c) => mptStr q ++ " " ++ mb2s c | none => "err"))
  | "mem.xkstring", [isPriv] =>
    let (h, k) := mkXKey p spare data (isPriv == "1")
    let r := xkeyString mpr h k
    some (okLine r.heap (agree (some r.val) (some (Bip32.toString mpr (k.value h))) mhx))
  | "mem.xkaddr", [isPriv, id] => do
    let id ← id.toNat?
    let (h, k) := mkXKey p spare data (isPriv == "1")
    let r := xkeyAddress mpr h k (UInt8.ofNat id)
    pure (okLine r.heap (agree (some r.val) (some (Bip32.address mpr (k.value h) (UInt8.ofNat id))) mhx))
  | "mem.xkchild", [isPriv, i] => do
    let i ← i.toNat?
    let (h, k) := mkXKey p spare data (isPriv == "1")
    let r := childHmac mpr h k i
    pure (okLine r.heap (match Bip32.child mpr (k.value h) i with
      | .ok c => mhx (Bip32.toString mpr c)
      | .error _ => "err"))
  | _, _ => none

def runMemOp (op : String) (args : List String) : Option String :=
  match args with
  | p :: spare :: data :: rest => do
    if !op.startsWith "mem." then none
    let p ← p.toNat?; let spare ← spare.toNat?; let data ← munhex data
    runMemOp' op p spare data rest
  | _ => none

end Driver
