import Std.Data.HashMap
import GoBk.Model.RealPrims
import GoBk.Model.Base58
import GoBk.Model.Der
import GoBk.Model.Ecdsa
import GoBk.Model.Wif
import GoBk.Model.Bip32
import GoBk.Model.XKeyStore
import GoBk.Model.Bip39
import GoBk.Model.Ecies
import GoBk.Model.Envelope
import GoBk.Model.JsonString
import Driver.FieldOps
import Driver.MemOps
import Driver.ImplOps
/-
  Line-protocol driver: one operation per input line, one result per output line.
  See DESIGN.md (Appendix B) for the op names.  Core Lean only (links as an executable).
-/
open GoBk GoBk.Bytes GoBk.Spec

def pr : Prims := realPrims
def nonceFuel : Nat := 64

def hx (b : Bytes) : String := if b.isEmpty then "-" else toHex b
def nhx (n : Nat) : String := String.ofList (Nat.toDigits 16 n)

def unhex (s : String) : Option Bytes := if s == "-" then some [] else ofHex s
def unnat (s : String) : Option Nat := (unhex (if s.length % 2 == 1 then "0" ++ s else s)).map beNat
def unint (s : String) : Option Int :=
  if s.startsWith "-" && s != "-" then (unnat (s.drop 1).toString).map fun n => - (n : Int)
  else (unnat s).map fun n => (n : Int)

/-- a tape is a comma list of reads (`!` = failed read); a leading `~k` element only records that the
harness's reader served at most k bytes per `Read` call (short reads) — the logical reads are the same -/
def untape (s : String) : Option Rng.Tape :=
  if s == "-" then some []
  else
    let parts := s.splitOn ","
    let parts := match parts with
      | p :: rest => if p.startsWith "~" then rest else p :: rest
      | [] => []
    parts.mapM fun r => if r == "!" then some none else (unhex r).map some

def ptStr (p : Pt) : String := nhx p.1 ++ " " ++ nhx p.2
def b2s (b : Bool) : String := if b then "1" else "0"

/-! ### extended-key histories (`xk`) -/
open GoBk.XKeyStore (Net)
abbrev XState := XKeyStore.State

def parseNets (s : String) : Option (List Net) :=
  (s.splitOn ";").mapM fun n =>
    match n.splitOn ":" with
    | [a, p, q] => do
      let a ← unhex a; let p ← unhex p; let q ← unhex q
      pure { addrID := a.headD 0, hdPriv := p, hdPub := q }
    | _ => none

def obsKey (nets : List Net) (k : Bip32.XKey) : String :=
  let addrID := (nets.head?.map (·.addrID)).getD 0
  let pub := match Bip32.ecPubKey k with
    | some q => hx (Ecdsa.serCompressed q)
    | none => "e"
  let prv := match Bip32.ecPrivKey k with
    | some d => hx (Ecdsa.privSerialise d)
    | none => "e"
  "S=" ++ hx (Bip32.toString pr k) ++ "|P=" ++ b2s k.isPrivate ++ "|D=" ++ toString k.depth ++
  "|F=" ++ nhx (Bip32.parentFingerprint k) ++ "|A=" ++ hx (Bip32.address pr k addrID) ++
  "|K=" ++ pub ++ "|V=" ++ prv

/-- memo table of the driver for observations (a pure-function cache; it changes no result) -/
structure Cache where
  obs : Std.HashMap Bip32.XKey String := {}

def obsKeyC (nets : List Net) (c : Cache) (k : Bip32.XKey) : String × Cache :=
  match c.obs[k]? with
  | some s => (s, c)
  | none => let s := obsKey nets k; (s, { c with obs := c.obs.insert k s })

/-- observe the live registers (all of them, or the 16 most recent when there are more) -/
def obsAll (nets : List Net) (c : Cache) (st : XState) : String × Cache := Id.run do
  let regs := st.regs.toList
  let regs := if regs.length > 16 then regs.drop (regs.length - 16) else regs
  let mut c := c
  let mut parts : Array String := #[]
  for r in regs do
    match r with
    | none => parts := parts.push "e"
    | some id =>
      match st.objs[id]? with
      | some k =>
        let (s, c') := obsKeyC nets c k
        c := c'
        parts := parts.push s
      | none => parts := parts.push "e"
  (",".intercalate parts.toList, c)

/-- parse one textual operation of an `xk` line -/
def parseXkOp (op : String) : Option XKeyStore.Op :=
  let kind := op.take 1 |>.toString
  let rest := (op.drop 1).toString
  match kind, rest.splitOn ":" with
  | "c", [r, i] => do let r ← r.toNat?; let i ← i.toNat?; pure (.child r i)
  | "n", [r] => do let r ← r.toNat?; pure (.neuter r)
  | "p", [r, p] => do let r ← r.toNat?; let p ← unhex p; pure (.path r p)
  | "d", [r, p] => do let r ← r.toNat?; let p ← unhex p; pure (.path r p)   -- DerivePublicKeyFromPath is a pure read
  | "t", [r] => do let r ← r.toNat?; pure (.reparse r)
  | "s", [r, n] => do let r ← r.toNat?; let n ← n.toNat?; pure (.setNet r n)
  | "z", [r] => do let r ← r.toNat?; pure (.zero r)
  | _, _ => none

def runXk (c : Cache) (netsS rootS opsS : String) (quiet : Bool := false) : Option (String × Cache) := do
  let nets ← parseNets netsS
  let root ← match rootS.splitOn ":" with
    | ["seed", h, n] => do
      let seed ← unhex h; let n ← n.toNat?; let net ← nets[n]?
      pure (Bip32.newMaster pr seed net.hdPriv)
    | ["str", h] => do
      let s ← unhex h
      pure (Bip32.fromString pr s)
    | _ => none
  let st0 := (XKeyStore.State.newObj {} root)
  let ops := if opsS == "-" then [] else opsS.splitOn ";"
  let mut st := st0
  let mut c := c
  if quiet then
    -- `xkq`: no key is looked at until the whole history has run (an observation computes and memoises the
    -- public key in the real code, which hides sharing that only happens on a first computation)
    for op in ops do
      let op ← parseXkOp op
      let st' ← XKeyStore.step pr nets st op
      st := st'
    let (o, c') := obsAll nets c st
    return ("ok " ++ o, c')
  let (o, c') := obsAll nets c st
  c := c'
  let mut out := o
  for op in ops do
    let op ← parseXkOp op
    let st' ← XKeyStore.step pr nets st op
    st := st'
    let (o, c'') := obsAll nets c st
    c := c''
    out := out ++ "/" ++ o
  pure ("ok " ++ out, c)

/-- `xk.sweep`: for each normal index the public key (and parent fingerprint) of Neuter(Child_i(m)) and of
Child_i(Neuter(m)) -/
def runXkSweep (seedS netS fromS countS : String) (netsS : List Net) : Option String := do
  let seed ← unhex seedS; let n ← netS.toNat?; let from_ ← fromS.toNat?; let count ← countS.toNat?
  let net ← netsS[n]?
  let reg : Bip32.Registry := netsS.map fun n => (n.hdPriv, n.hdPub)
  match Bip32.newMaster pr seed net.hdPriv with
  | .error _ => pure "err"
  | .ok m =>
    match Bip32.neuter reg m with
    | .error _ => pure "err"
    | .ok pm =>
      let keyOf := fun (k : Except Bip32.Err Bip32.XKey) =>
        match k with
        | .error _ => "e"
        | .ok k => match Bip32.ecPubKey k with
          | some q => hx (Ecdsa.serCompressed q) ++ "." ++ nhx (Bip32.parentFingerprint k)
          | none => "x" ++ hx (Bip32.toString pr k)
      let parts := (List.range count).map fun j =>
        let i := from_ + j
        let a1 := match Bip32.child pr m i with
          | .error _ => "e"
          | .ok c => keyOf (Bip32.neuter reg c)
        " " ++ a1 ++ ":" ++ keyOf (Bip32.child pr pm i)
      pure ("ok" ++ String.join parts)

/-- the fixed network table of the harness (every xk line carries it; `xk.sweep` lines do not) -/
def defaultNets : List Net := [
  ⟨0x00, [0x04,0x88,0xad,0xe4], [0x04,0x88,0xb2,0x1e]⟩, ⟨0x6f, [0x04,0x35,0x83,0x94], [0x04,0x35,0x87,0xcf]⟩ ]

/-! ### dispatcher -/
def optBytes (s : String) : Option (Option Bytes) :=
  if s == "nil" then some none else (unhex s).map some

def runOp (op : String) (a : List String) : Option String :=
  match op, a with
  | "b58.enc", [h] => do let b ← unhex h; pure ("ok " ++ hx (Base58.encode b))
  | "b58.dec", [h] => do let b ← unhex h; pure ("ok " ++ hx (Base58.decode b))
  | "b58.cenc", [h, v] => do
    let b ← unhex h; let v ← v.toNat?
    pure ("ok " ++ hx (Base58.checkEncode pr b (UInt8.ofNat v)))
  | "b58.cdec", [h] => do
    let b ← unhex h
    pure (match Base58.checkDecode pr b with
      | some (p, v) => "ok " ++ hx p ++ " " ++ toString v.toNat
      | none => "err")
  | "der.ser", [r, s] => do
    let r ← unnat r; let s ← unnat s
    -- the pair, and (unless both fields are one object on the real side: r = s) the pair after s := s + 1 in place
    pure ("ok " ++ hx (Der.serialise r s) ++ (if r == s then "" else " " ++ hx (Der.serialise r (s + 1))))
  | "der.parse", [h] => do
    let b ← unhex h
    pure (match Der.parseDER b with | some (r, s) => "ok " ++ nhx r ++ " " ++ nhx s | none => "err")
  | "der.lax", [h] => do
    let b ← unhex h
    pure (match Der.parseLax b with | some (r, s) => "ok " ++ nhx r ++ " " ++ nhx s | none => "err")
  | "wif.enc", [d, c, n] => do
    let d ← unnat d; let n ← n.toNat?
    pure ("ok " ++ hx (Wif.wifString pr d (c == "1") (UInt8.ofNat n)))
  | "wif.dec", [h] => do
    let b ← unhex h
    pure (match Wif.decodeWIF pr b with
      | some (d, c, n) =>
        -- SerialisePubKey of the decoded key: the public key of d (32 key bytes), in the format the flag selects
        let q := (Ecdsa.privKeyFromBytes (natBEpad 32 d)).2
        "ok " ++ nhx d ++ " " ++ b2s c ++ " " ++ toString n.toNat ++ " " ++
          hx (if c then Ecdsa.serCompressed q else Ecdsa.serUncompressed q)
      | none => "err")
  | "addr", [pk, id] => do
    let pk ← unhex pk; let id ← id.toNat?
    pure ("ok " ++ hx (Wif.address pr pk (UInt8.ofNat id)))
  | "addr.seq", [pk, ids] => do
    let pk ← unhex pk
    let ids ← (ids.splitOn ",").mapM (·.toNat?)
    pure ("ok" ++ String.join (ids.map fun id => " " ++ hx (Wif.address pr pk (UInt8.ofNat id))))
  | "hash.sha256", [h] => do let b ← unhex h; pure ("ok " ++ hx (pr.sha256 b))
  | "hash.sha256d", [h] => do let b ← unhex h; pure ("ok " ++ hx (pr.sha256d b))
  | "hash.ripemd160", [h] => do let b ← unhex h; pure ("ok " ++ hx (pr.ripemd160 b))
  | "hash.hash160", [h] => do let b ← unhex h; pure ("ok " ++ hx (pr.hash160 b))
  | "parsepub", [h] => do
    let b ← unhex h
    -- IsCompressedPubKey: 33 bytes and first byte 02/03 (a pure predicate on the bytes, whether or not they parse)
    let ic := b.length == 33 && (b.headD 0 &&& 0xFE) == 2
    pure ((match Ecdsa.parsePubKey b with | some q => "ok " ++ ptStr q | none => "err") ++ " C=" ++ b2s ic)
  | "parsepub.seq", [hs] => do
    let bs ← (hs.splitOn ",").mapM unhex
    pure ("ok" ++ String.join (bs.map fun b =>
      " " ++ (match Ecdsa.parsePubKey b with | some q => nhx q.1 ++ ":" ++ nhx q.2 | none => "err")))
  | "serpub", [x, y] => do
    let x ← unnat x; let y ← unnat y
    pure ("ok " ++ hx (Ecdsa.serUncompressed (x,y)) ++ " " ++ hx (Ecdsa.serCompressed (x,y)) ++ " " ++
          hx (Ecdsa.serHybrid (x,y)))
  | "privbytes", [h] => do
    let b ← unhex h
    let (d, q) := Ecdsa.privKeyFromBytes b
    pure ("ok " ++ hx (Ecdsa.privSerialise d) ++ " " ++ ptStr q ++ " " ++ ptStr q)
  | "curve.add", [x1, y1, x2, y2] => do
    let x1 ← unnat x1; let y1 ← unnat y1; let x2 ← unnat x2; let y2 ← unnat y2
    pure ("ok " ++ ptStr (Curve.add (x1,y1) (x2,y2)))
  | "curve.double", [x, y] => do
    let x ← unnat x; let y ← unnat y
    pure ("ok " ++ ptStr (Curve.double (x,y)))
  | "curve.smul", [x, y, k] => do
    let x ← unnat x; let y ← unnat y; let k ← unhex k
    pure ("ok " ++ ptStr (Curve.scalarMult (x,y) k))
  | "curve.sbmul", [k] => do let k ← unhex k; pure ("ok " ++ ptStr (Curve.scalarBaseMult k))
  | "curve.oncurve", [x, y] => do
    let x ← unnat x; let y ← unnat y
    pure ("ok " ++ b2s (Curve.isOnCurve (x,y)))
  | "sign", [d, h] => do
    let d ← unnat d; let h ← unhex h
    pure (match Ecdsa.sign pr nonceFuel d h with
      | some (r, s) => "ok " ++ nhx r ++ " " ++ nhx s
      | none => "err")
  | "sign.seq", [d, hs] => do
    -- one key, several messages in a row (the real side hands them over in one re-used buffer)
    let d ← unnat d
    let hl ← (hs.splitOn ",").mapM unhex
    pure ("ok" ++ String.join (hl.map fun h => match Ecdsa.sign pr nonceFuel d h with
      | some (r, s) => " " ++ nhx r ++ ":" ++ nhx s
      | none => " e"))
  | "nonce", [d, h] => do
    let d ← unnat d; let h ← unhex h
    pure (match Ecdsa.nonceRFC6979 pr nonceFuel d h with | some k => "ok " ++ nhx k | none => "err")
  | "verify", [x, y, h, r, s] => do
    let x ← unnat x; let y ← unnat y; let h ← unhex h; let r ← unint r; let s ← unint s
    pure ("ok " ++ b2s (Ecdsa.verify (x,y) h r s))
  | "compact.sign", [d, h, c] => do
    let d ← unnat d; let h ← unhex h
    let pub := Curve.scalarBaseMult (natBE d)
    pure (match Ecdsa.signCompact pr nonceFuel d pub h (c == "1") with
      | some b => "ok " ++ hx b | none => "err")
  | "compact.recover", [sg, h] => do
    let sg ← unhex sg; let h ← unhex h
    pure (match Ecdsa.recoverCompact sg h with
      | some (q, c) => "ok " ++ ptStr q ++ " " ++ b2s c | none => "err")
  | "ecdh", [d, x, y] => do
    let d ← unnat d; let x ← unnat x; let y ← unnat y
    pure ("ok " ++ hx (Ecies.sharedSecret d (x,y)))
  | "ecdh.seq", [items] => do
    let parts ← (items.splitOn ";").mapM fun it =>
      match it.splitOn ":" with
      | [d, x, y] => do let d ← unnat d; let x ← unnat x; let y ← unnat y; pure (hx (Ecies.sharedSecret d (x,y)))
      | _ => none
    pure ("ok" ++ String.join (parts.map fun p => " " ++ p))
  | "ecies.enc", [x, y, m, t] => do
    let x ← unnat x; let y ← unnat y; let m ← unhex m; let t ← untape t
    pure (match Ecies.encrypt pr (x,y) m t with | some (c, _) => "ok " ++ hx c | none => "err")
  | "ecies.seq", [x, y, ms, t] => do
    let x ← unnat x; let y ← unnat y; let t ← untape t
    let msgs ← (ms.splitOn ",").mapM unhex
    let rec goEnc (ms : List Bytes) (t : Rng.Tape) (acc : String) : String :=
      match ms with
      | [] => acc
      | m :: rest =>
        match Ecies.encrypt pr (x,y) m t with
        | some (c, t') => goEnc rest t' (acc ++ " " ++ hx c)
        | none => acc ++ " e"
    pure (goEnc msgs t "ok")
  | "ecies.dec", [d, c] => do
    let d ← unnat d; let c ← unhex c
    pure (match Ecies.decrypt pr d c with | some m => "ok " ++ hx m | none => "err")
  | "cfb.enc", [k, m, t] => do
    let k ← unhex k; let m ← unhex m; let t ← untape t
    pure (match Ecies.cfbEncrypt pr k m t with | some (c, _) => "ok " ++ hx c | none => "err")
  | "cfb.dec", [k, c] => do
    let k ← unhex k; let c ← unhex c
    pure (match Ecies.cfbDecrypt pr k c with | some m => "ok " ++ hx m | none => "err")
  | "bip39.mn", [e, p] => do
    let e ← unhex e; let p ← unhex p
    pure (match Bip39.mnemonic pr e p with | some (m, s) => "ok " ++ hx m ++ " " ++ hx s | none => "err")
  | "bip39.seed", [w, p] => do
    let w ← unhex w; let p ← unhex p
    pure (match Bip39.mnemonicToSeed pr w p with | some s => "ok " ++ hx s | none => "err")
  | "bip39.seq", [e, phs] => do
    let e ← unhex e
    let phs ← (phs.splitOn ",").mapM unhex
    -- every call is the pure function of its own arguments
    match Bip39.mnemonic pr e [] with
    | none => pure "err"
    | some (m, _) =>
      let seeds := phs.map fun p => pr.pbkdf2_512 m (Bip39.mnemonicSalt p) 2048 64
      pure ("ok" ++ String.join (seeds.map fun s => " " ++ hx s))
  | "xk.dpub", [ks, p] => do
    -- DerivePublicKeyFromPath on a key imported from its string form
    let ks ← unhex ks; let p ← unhex p
    pure (match Bip32.fromString pr ks with
      | .error _ => "err-import"
      | .ok k => match Bip32.deriveChildFromPath pr k p with
        | .error _ => "err"
        | .ok c => match Bip32.ecPubKey c with
          | some q => "ok " ++ hx (Ecdsa.serCompressed q)
          | none => "err")
  | "dpath.fwd", [i] => do let i ← i.toNat?; pure ("ok " ++ hx (Bip32.derivePath (UInt64.ofNat i)))
  | "dpath.back", [p] => do
    let p ← unhex p
    pure (match Bip32.deriveNumber p with | some v => "ok " ++ toString v.toNat | none => "err")
  | "env.valid", [p, sg, pk, m] => do
    let p ← unhex p; let sg ← optBytes sg; let pk ← optBytes pk; let m ← unhex m
    pure (match Envelope.isValid pr p sg pk m with
      | .valid => "ok 1" | .invalid => "ok 0" | .error => "err")
  | "env.valid", [p, sg, pk, m, _enc] => do
    -- the Encoding field does not take part in the decision
    let p ← unhex p; let sg ← optBytes sg; let pk ← optBytes pk; let m ← unhex m
    pure (match Envelope.isValid pr p sg pk m with
      | .valid => "ok 1" | .invalid => "ok 0" | .error => "err")
  | "env.new.bad", [_pl, t] => do
    -- the payload cannot be marshalled: an error (the key has been drawn by then; nothing else happens)
    let _ ← untape t
    pure "err"
  | "env.seq", [p, sg, pk, m, steps] => do
    -- every validation is the pure function of the fields at that moment
    let p ← unhex p; let sg ← unhex sg; let pk ← unhex pk; let m ← unhex m
    let mut st : Bytes × Bytes × Bytes × Bytes := (p, sg, pk, m)
    let mut out := "ok"
    for s in steps.splitOn "," do
      if s == "v" then
        out := out ++ (match Envelope.isValid pr st.1 (some st.2.1) (some st.2.2.1) st.2.2.2 with
          | .valid => " 1" | .invalid => " 0" | .error => " e")
      else
        let v ← unhex (s.drop 2).toString
        match (s.take 2).toString with
        | "p:" => st := (v, st.2.1, st.2.2.1, st.2.2.2)
        | "s:" => st := (st.1, v, st.2.2.1, st.2.2.2)
        | "k:" => st := (st.1, st.2.1, v, st.2.2.2)
        | "m:" => st := (st.1, st.2.1, st.2.2.1, v)
        | _ => none
    pure out
  | "env.new", [pl, t] => do
    let pl ← unhex pl; let t ← untape t
    pure (match Envelope.newEnvelopeRaw pr nonceFuel pl t with
      | some (pl', sg, pk) =>
        -- the envelope's own validity, and again after a JSON round trip of the envelope
        -- (the identity on its string fields: they are valid UTF-8, `pl'` by sanitisation)
        let v := match Envelope.isValid pr pl' (some sg) (some pk) Envelope.mimeJSON with
          | .valid => "1" | .invalid => "0" | .error => "e"
        "ok " ++ hx sg ++ " " ++ hx pk ++ " " ++ v ++ " " ++ v ++ " P=" ++ hx pl' ++ " P2=" ++ hx pl'
      | none => "err")
  | "json.quote", [h] => do
    -- encoding/json on a Go string: json.Marshal(string(b))
    let b ← unhex h
    pure ("ok " ++ hx (JsonString.jsonQuote b))
  | "json.unquote", [h] => do
    -- json.Unmarshal(lit, &s) for a literal that starts and ends with a double quote
    let b ← unhex h
    pure (match JsonString.jsonUnquote b with | some r => "ok " ++ hx r | none => "err")
  | "json.roundtrip", [h] => do
    -- the envelope's own round trip on one string field: Unmarshal(Marshal(s))
    let b ← unhex h
    pure (match JsonString.jsonUnquote (JsonString.jsonQuote b) with | some r => "ok " ++ hx r | none => "err")
  | "rng.key", [t] => do
    let t ← untape t
    pure (match Rng.generateKey t with
      | some (d, q, _) => "ok " ++ nhx d ++ " " ++ ptStr q | none => "err")
  | "rng.seq", [items, t] => do
    let t ← untape t
    let rec go (its : List String) (t : Rng.Tape) (acc : String) : Option String :=
      match its with
      | [] => some acc
      | it :: rest =>
        if it == "k" then
          match Rng.generateKey t with
          | some (d, q, t') => go rest t' (acc ++ " " ++ nhx d ++ ":" ++ ptStr q)
          | none => some (acc ++ " e")
        else
          let c := it.front
          match (it.drop 1).toNat? with
          | none => none
          | some n =>
            if n > 100000 then none else
            if c == 's' then
              if n > 255 then none else
              match Rng.generateSeed n t with
              | some (b, t') => go rest t' (acc ++ " " ++ hx b)
              | none => some (acc ++ " e")
            else if c == 'e' then
              match Rng.generateEntropy n t with
              | some (b, t') => go rest t' (acc ++ " " ++ hx b)
              | none => some (acc ++ " e")
            else none
    go (items.splitOn ",") t "ok"
  | "rng.seed", [n, t] => do
    let n ← n.toNat?; let t ← untape t
    pure (match Rng.generateSeed n t with | some (b, _) => "ok " ++ hx b | none => "err")
  | "rng.entropy", [n, t] => do
    let n ← n.toNat?; let t ← untape t
    pure (match Rng.generateEntropy n t with | some (b, _) => "ok " ++ hx b | none => "err")
  | op, args => ((Driver.runFieldOp op args).orElse fun _ => Driver.runMemOp op args).orElse fun _ => Driver.runImplOp op args

/-- token list split at the "|" tokens (`seq` lines) -/
def splitBar (ts : List String) : List (List String) :=
  let r := ts.foldl (fun (st : List String × List (List String)) t =>
    if t == "|" then ([], st.2 ++ [st.1.reverse]) else (t :: st.1, st.2)) ([], [])
  r.2 ++ [r.1.reverse]

/-- ops that may appear inside a `seq` line (same list as harness/main.go `seqOps`) -/
def seqOps : List String := ["b58.dec", "b58.cdec", "b58.enc", "b58.cenc", "der.parse", "der.lax", "der.ser", "wif.dec", "wif.enc",
  "addr", "hash.sha256", "hash.sha256d", "hash.ripemd160", "hash.hash160", "parsepub", "serpub", "privbytes", "curve.add",
  "curve.double", "curve.smul", "curve.sbmul", "curve.oncurve", "verify", "compact.recover", "compact.sign", "ecdh", "bip39.seed",
  "bip39.mn", "dpath.fwd", "dpath.back", "env.valid", "json.quote", "json.unquote", "json.roundtrip"]

/-- `seq l1 | l2 | …`: the model is a pure function, so the answer is the answers of the sub-lines, joined the same way -/
def runSeq (rest : List String) : String :=
  let subs := splitBar rest
  if subs.any (fun s => match s with | op :: _ => !(seqOps.contains op) | [] => true) then "bad-op"
  else String.intercalate " | " (subs.map fun s => match s with
    | op :: args => (runOp op args).getD "bad-op"
    | [] => "bad-op")

partial def loop (hin hout : IO.FS.Stream) (c : Cache) : IO Unit := do
  let line ← hin.getLine
  if line.isEmpty then return ()
  let toks := (line.trimAscii.toString.splitOn " ").filter (· != "")
  match toks with
  | [] => hout.putStrLn "bad-op"; loop hin hout c
  | ["xk", nets, root, ops] =>
    match runXk c nets root ops with
    | some (r, c') => hout.putStrLn r; loop hin hout c'
    | none => hout.putStrLn "bad-op"; loop hin hout c
  | ["xkq", nets, root, ops] =>
    match runXk c nets root ops true with
    | some (r, c') => hout.putStrLn r; loop hin hout c'
    | none => hout.putStrLn "bad-op"; loop hin hout c
  | ["xk.sweep", seed, net, from_, count] =>
    (match runXkSweep seed net from_ count defaultNets with
     | some r => hout.putStrLn r
     | none => hout.putStrLn "bad-op")
    loop hin hout c
  | "seq" :: rest => hout.putStrLn (runSeq rest); loop hin hout c
  | op :: args =>
    match runOp op args with
    | some r => hout.putStrLn r
    | none => hout.putStrLn "bad-op"
    loop hin hout c

def main : IO Unit := do
  let hin ← IO.getStdin
  let hout ← IO.getStdout
  loop hin hout {}
  hout.flush
