import GoBk.Base.Bytes
import GoBk.Gen.Field
import GoBk.Gen.Consts
import GoBk.Gen.CurveIR
import GoBk.Gen.Table
import GoBk.Model.IR
import GoBk.Model.IRWrap
import GoBk.Spec.Secp
/-
  Driver ops on the REGENERATED code: `field.*` (word-level field operations of Gen/Field.lean),
  `jac.*` (the point-arithmetic IR of Gen/CurveIR.lean run by `GoBk.IR`) and `table.get`
  (Gen/Table.lean).  The same op lines are run against the real Go code through the build-tag
  hooks by /verif/harness/exec_field.go; formats are documented there.

  Hand-modelled glue (everything else is regenerated):
  * `setByteSlice` = Go `SetByteSlice` (truncate to the first 32 bytes, left-pad to 32, `SetBytes`);
  * `big.Int.Bytes()` = `natBE` (minimal big-endian), `big.Int.SetBytes` = `beNat`;
  * the constants fieldOne = SetInt(1), curve.fieldB = SetByteSlice(B.Bytes()),
    curve.beta = SetHex(<64 hex digits>) = SetByteSlice(32 bytes) (op `jac.consts` compares them
    with the real ones).
  In the Go code an aliased call (`f.Mul2(f, b)`) is the same pure function applied to the same
  values: the `.r1/.r2/.r12` ops check exactly that claim of the translator.
-/
namespace Driver
open GoBk GoBk.Bytes GoBk.Gen.Field

def B32.ofList (l : List UInt8) : B32 :=
  { b0 := l.getD 0 0, b1 := l.getD 1 0, b2 := l.getD 2 0, b3 := l.getD 3 0, b4 := l.getD 4 0, b5 := l.getD 5 0, b6 := l.getD 6 0, b7 := l.getD 7 0, b8 := l.getD 8 0, b9 := l.getD 9 0, b10 := l.getD 10 0, b11 := l.getD 11 0, b12 := l.getD 12 0, b13 := l.getD 13 0, b14 := l.getD 14 0, b15 := l.getD 15 0, b16 := l.getD 16 0, b17 := l.getD 17 0, b18 := l.getD 18 0, b19 := l.getD 19 0, b20 := l.getD 20 0, b21 := l.getD 21 0, b22 := l.getD 22 0, b23 := l.getD 23 0, b24 := l.getD 24 0, b25 := l.getD 25 0, b26 := l.getD 26 0, b27 := l.getD 27 0, b28 := l.getD 28 0, b29 := l.getD 29 0, b30 := l.getD 30 0, b31 := l.getD 31 0 }

/-- Go `SetByteSlice` (hand model of the slice handling in front of `SetBytes`) -/
def setByteSlice (b : Bytes) : FV :=
  let b := b.take 32
  setBytes (B32.ofList (padLeft 32 b))

def hexNat? (s : String) : Option Nat :=
  if s.isEmpty then none
  else s.toList.foldlM (fun acc c => (hexVal c).map fun d => acc * 16 + d) 0

def nhex (n : Nat) : String := String.ofList (Nat.toDigits 16 n)

def fvWords (f : FV) : List UInt32 := [f.n0, f.n1, f.n2, f.n3, f.n4, f.n5, f.n6, f.n7, f.n8, f.n9]

def fvStr (f : FV) : String := ",".intercalate ((fvWords f).map fun w => nhex w.toNat)

def parseFV (s : String) : Option FV := do
  let ws ← (s.splitOn ",").mapM hexNat?
  if ws.length != 10 || ws.any (· ≥ 4294967296) then none
  else
    let w := fun i => UInt32.ofNat (ws.getD i 0)
    pure { n0 := w 0, n1 := w 1, n2 := w 2, n3 := w 3, n4 := w 4, n5 := w 5, n6 := w 6, n7 := w 7, n8 := w 8, n9 := w 9 }

def parseAlias (s : String) (n : Nat) : Option (List Nat) := do
  let a ← (s.splitOn ",").mapM String.toNat?
  if a.length != n then none
  else if (List.range n).all fun i => let j := a.getD i 0; j = i || (j < i && a.getD j 0 = j) then some a
  else none

def unhexB (s : String) : Option Bytes := if s == "-" then some [] else ofHex s
def hxB (b : Bytes) : String := if b.isEmpty then "-" else toHex b
def b2s (b : Bool) : String := if b then "1" else "0"
def okFV (f : FV) : Option String := some ("ok " ++ fvStr f)

def fieldOneV : FV := setInt 1
def fieldBV : FV := setByteSlice (natBE GoBk.Gen.c_B)
def betaV : FV := setByteSlice (natBEpad 32 GoBk.Gen.c_beta)
def consts : FV × FV × FV := (fieldOneV, fieldBV, betaV)

open GoBk.Gen.CurveIR in
def jacFn : String → Option (Nat × Nat)
  | "add" => some (fn_addJacobian, 9)
  | "double" => some (fn_doubleJacobian, 6)
  | "addv1" => some (fn_addZ1AndZ2EqualsOne, 8)
  | "addv2" => some (fn_addZ1EqualsZ2, 8)
  | "addv3" => some (fn_addZ2EqualsOne, 8)
  | "addv4" => some (fn_addGeneric, 9)
  | "dblv1" => some (fn_doubleZ1EqualsOne, 5)
  | "dblv2" => some (fn_doubleGeneric, 6)
  | "toaffine" => some (fn_fieldJacobianToBigAffine, 3)
  | _ => none

def fvNat (f : FV) : Nat := beNat (bytes f).toList

/-- integer value Σ nᵢ·2^(26i) of a word vector -/
def fvVal (f : FV) : Nat := (fvWords f).foldr (fun w acc => w.toNat + acc * 67108864) 0

/-- the affine point a Jacobian triple stands for (z ≡ 0 or x ≡ y ≡ 0: infinity), by the reference arithmetic -/
def jacAffine (x y z : FV) : GoBk.Spec.Pt :=
  let p := GoBk.Spec.P
  let xv := fvVal x % p; let yv := fvVal y % p; let zv := fvVal z % p
  if zv == 0 || (xv == 0 && yv == 0) then (0, 0) else
  let zi := GoBk.Spec.invMod zv p
  let zi2 := zi * zi % p
  (xv * zi2 % p, yv * zi2 % p * zi % p)

/-- PROPERTY-LEVEL oracle for the Jacobian routines (C01, internal quantifier): when the inputs stand for
valid curve points, the output triple must stand for the group-law sum / double computed by the affine
reference `GoBk.Spec`.  `true` when there is nothing to check (invalid inputs). -/
def jacSpecOk (name : String) (args out : List FV) : Bool :=
  let g := fun (l : List FV) i => l.getD i zero
  let one := setInt 1
  -- an input is a PROPER representation (the ones the property quantifies over and the callers produce):
  -- infinity as a literally zero z or literally zero (x,y); otherwise z invertible and the point on the curve.
  -- Denormalised zeros (words of P standing for 0) are not representations of anything: nothing to check.
  let rep := fun (x y z : FV) =>
    if isZero z || (isZero x && isZero y) then some ((0, 0) : GoBk.Spec.Pt)
    else if fvVal z % GoBk.Spec.P == 0 then none
    else
      let a := jacAffine x y z
      if GoBk.Spec.isInf a || !GoBk.Spec.valid a then none else some a
  let chk := fun (a b : Option GoBk.Spec.Pt) (binary : Bool) (ox oy oz : FV) =>
    match a, b with
    | some a, some b => jacAffine ox oy oz == (if binary then GoBk.Spec.padd a b else GoBk.Spec.pdouble a)
    | _, _ => true
  match name with
  | "add" | "addv4" =>
    chk (rep (g args 0) (g args 1) (g args 2)) (rep (g args 3) (g args 4) (g args 5)) true (g out 6) (g out 7) (g out 8)
  | "addv1" | "addv3" =>
    chk (rep (g args 0) (g args 1) (g args 2)) (rep (g args 3) (g args 4) one) true (g out 5) (g out 6) (g out 7)
  | "addv2" =>
    chk (rep (g args 0) (g args 1) (g args 2)) (rep (g args 3) (g args 4) (g args 2)) true (g out 5) (g out 6) (g out 7)
  | "double" | "dblv2" =>
    let a := rep (g args 0) (g args 1) (g args 2)
    chk a a false (g out 3) (g out 4) (g out 5)
  | "dblv1" =>
    let a := rep (g args 0) (g args 1) one
    chk a a false (g out 2) (g out 3) (g out 4)
  | _ => true

def runJac (name : String) (aliasS : String) (ps : List String) : Option String := do
  let (idx, n) ← jacFn name
  if ps.length != n then none
  let args ← ps.mapM parseFV
  let alias ← parseAlias aliasS n
  let out := GoBk.IR.runFn GoBk.Gen.CurveIR.prog consts idx args alias
  let s := " ".intercalate (out.map fvStr)
  if name == "toaffine" then
    -- hand-modelled tail of fieldJacobianToBigAffine: x3.SetBytes(x.Bytes()[:]), same for y
    pure ("ok " ++ s ++ " " ++ nhex (fvNat (out.getD 0 zero)) ++ " " ++ nhex (fvNat (out.getD 1 zero)))
  else
    -- inputs as the callee sees them: an aliased parameter starts with the value of the parameter it aliases
    let seen := (List.range n).map fun i => args.getD (alias.getD i i) zero
    pure ("ok " ++ s ++ " S=" ++ b2s (jacSpecOk name seen out))

def runFieldOpRaw (op : String) (a : List String) : Option String :=
  match op, a with
  | "field.zero", [] => okFV zero
  | "field.set", [x] => do let x ← parseFV x; okFV (setVal x)
  | "field.setint", [k] => do let k ← k.toNat?; okFV (setInt k)
  | "field.normalise", [x] => do let x ← parseFV x; okFV (normalise x)
  | "field.add", [x, y] => do let x ← parseFV x; let y ← parseFV y; okFV (add x y)
  | "field.addself", [x] => do let x ← parseFV x; okFV (add x x)
  | "field.add2", [x, y] => do let x ← parseFV x; let y ← parseFV y; okFV (add2 x y)
  | "field.add2.r1", [x, y] => do let x ← parseFV x; let y ← parseFV y; okFV (add2 x y)
  | "field.add2.r2", [x, y] => do let x ← parseFV x; let y ← parseFV y; okFV (add2 x y)
  | "field.add2.r12", [x] => do let x ← parseFV x; okFV (add2 x x)
  | "field.addint", [x, k] => do let x ← parseFV x; let k ← k.toNat?; okFV (addInt x k)
  | "field.neg", [x, m] => do let x ← parseFV x; let m ← m.toNat?; okFV (negate x (UInt32.ofNat m))
  | "field.negval", [x, m] => do let x ← parseFV x; let m ← m.toNat?; okFV (negateVal x (UInt32.ofNat m))
  | "field.mulint", [x, k] => do let x ← parseFV x; let k ← k.toNat?; okFV (mulInt x k)
  | "field.mul", [x, y] => do let x ← parseFV x; let y ← parseFV y; okFV (mul x y)
  | "field.mulself", [x] => do let x ← parseFV x; okFV (mul x x)
  | "field.mul2", [x, y] => do let x ← parseFV x; let y ← parseFV y; okFV (mul2 x y)
  | "field.mul2.r1", [x, y] => do let x ← parseFV x; let y ← parseFV y; okFV (mul2 x y)
  | "field.mul2.r2", [x, y] => do let x ← parseFV x; let y ← parseFV y; okFV (mul2 x y)
  | "field.mul2.r12", [x] => do let x ← parseFV x; okFV (mul2 x x)
  | "field.sq", [x] => do let x ← parseFV x; okFV (square x)
  | "field.sqval", [x] => do let x ← parseFV x; okFV (squareVal x)
  | "field.inv", [x] => do let x ← parseFV x; okFV (inverse x)
  | "field.sqrt", [x] => do let x ← parseFV x; okFV (sqrtVal x)
  | "field.setbytes", [h] => do let b ← unhexB h; okFV (setByteSlice b)
  | "field.setbytes32", [h] => do
    let b ← unhexB h
    if b.length != 32 then none else okFV (setBytes (B32.ofList b))
  | "field.putbytes", [x] => do let x ← parseFV x; pure ("ok " ++ hxB (putBytes x).toList)
  | "field.bytes", [x] => do let x ← parseFV x; pure ("ok " ++ hxB (bytes x).toList)
  | "field.iszero", [x] => do let x ← parseFV x; pure ("ok " ++ b2s (isZero x))
  | "field.isodd", [x] => do let x ← parseFV x; pure ("ok " ++ b2s (isOdd x))
  | "field.eq", [x, y] => do let x ← parseFV x; let y ← parseFV y; pure ("ok " ++ b2s (equals x y))
  | "field.eqself", [x] => do let x ← parseFV x; pure ("ok " ++ b2s (equals x x))
  | "field.exact", _ => some "ok exact"
  | "field.contract", _ => some "ok within"   -- the property's claim: formulas call the operations only within their bounds   -- the property's claim for every operation a formula performs
  | "jac.wrap", fn :: aliasS :: ps =>
    -- run the regenerated formula in lock-step with the exact twins; report the first wrapping operation
    match jacFn fn with
    | none => none
    | some (idx, n) =>
      if ps.length != n then none else do
        let args ← ps.mapM parseFV
        let alias ← parseAlias aliasS n
        let (_, w, _) := GoBk.IRW.runFnW GoBk.Gen.CurveIR.prog consts idx args alias
        pure (match w with | none => "ok safe" | some line => "ok " ++ line)
  | "jac.wrapdec", [x, ybit] => do
    let x ← hexNat? x
    let yb ← if ybit == "1" then some true else if ybit == "0" then some false else none
    let (_, w, _) := GoBk.IRW.runFnW GoBk.Gen.CurveIR.prog consts GoBk.Gen.CurveIR.fn_decompressPoint
      [setByteSlice (natBE x)] [0] (fun i => i == 0 && yb)
    pure (match w with | none => "ok safe" | some line => "ok " ++ line)
  | "jac.wraponcurve", [x, y] => do
    let x ← hexNat? x; let y ← hexNat? y
    let (_, w, _) := GoBk.IRW.runFnW GoBk.Gen.CurveIR.prog consts GoBk.Gen.CurveIR.fn_isOnCurve
      [setByteSlice (natBE x), setByteSlice (natBE y)] [0, 1]
    pure (match w with | none => "ok safe" | some line => "ok " ++ line)
  | "jac.consts", [] => some ("ok " ++ fvStr fieldOneV ++ " " ++ fvStr fieldBV ++ " " ++ fvStr betaV)
  | "jac.oncurve", [x, y] => do
    -- hand-modelled head of IsOnCurve: bigAffineToField = SetByteSlice(x.Bytes()), same for y
    let x ← hexNat? x; let y ← hexNat? y
    let out := GoBk.IR.runFnFull GoBk.Gen.CurveIR.prog consts GoBk.Gen.CurveIR.fn_isOnCurve
      [setByteSlice (natBE x), setByteSlice (natBE y)] [0, 1] (fun _ => false)
    -- S=: the regenerated code's answer against the curve equation on the values (first 32 bytes, mod P)
    let xv := beNat ((natBE x).take 32) % Spec.P; let yv := beNat ((natBE y).take 32) % Spec.P
    let want := (yv * yv) % Spec.P == (xv * xv % Spec.P * xv + 7) % Spec.P
    pure ("ok " ++ b2s (out.flags 0) ++ " S=" ++ b2s (out.flags 0 == want))
  | "jac.decompress", [x, ybit] => do
    -- hand-modelled head/tail of decompressPoint: x.SetByteSlice(bigX.Bytes()); SetBytes(y.Bytes()[:])
    let x ← hexNat? x
    let yb ← if ybit == "1" then some true else if ybit == "0" then some false else none
    let out := GoBk.IR.runFnFull GoBk.Gen.CurveIR.prog consts GoBk.Gen.CurveIR.fn_decompressPoint
      [setByteSlice (natBE x)] [0] (fun i => i == 0 && yb)
    -- S=: against the square root computed in plain natural-number arithmetic (a^((P+1)/4), parity fix, check)
    let xv := beNat ((natBE x).take 32) % Spec.P
    let c := (xv * xv % Spec.P * xv + 7) % Spec.P
    let y0 := Spec.sqrtCand c
    let y1 := if yb != (y0 % 2 == 1) then (Spec.P - y0) % Spec.P else y0
    let want : String := if y1 * y1 % Spec.P != c then "err 1" else if yb != (y1 % 2 == 1) then "err 2" else "ok " ++ nhex y1
    let got := if out.flags 1 then "err 1" else if out.flags 2 then "err 2"
          else "ok " ++ nhex (fvNat (out.locals.getD 1 zero))
    pure (got ++ " S=" ++ b2s (got == want))
  | "table.get", [i, b] => do
    let i ← i.toNat?; let b ← b.toNat?
    if i ≥ 32 || b ≥ 256 then none
    else
      let g := GoBk.Gen.Table.get i b
      pure ("ok " ++ fvStr (g 0) ++ " " ++ fvStr (g 1) ++ " " ++ fvStr (g 2))
  | op, args =>
    if op.startsWith "jac." then
      match args with
      | al :: ps => runJac (op.drop 4).toString al ps
      | [] => none
    else none

/-! ### property-level oracle for the word-level field ops (C09/C10)

The raw answer above is the REGENERATED code's; `S=` is the verdict of an independent check in plain natural
number arithmetic of what the property promises — computed only when the operands are within the operation's
documented magnitude contract (`MagLe`), since outside it the code promises nothing (the `.ooc` classes of the
generators only compare wrap-around behaviour). -/

def magLeB (m : Nat) (f : FV) : Bool :=
  let w := (fvWords f).map (·.toNat)
  (w.take 9).all (· ≤ 68157440 * m) && w.getD 9 0 ≤ 4194304 * m

def minMag (f : FV) : Nat := ((List.range 65).find? fun m => magLeB m f).getD 1000
def canonB (f : FV) : Bool :=
  let w := (fvWords f).map (·.toNat)
  (w.take 9).all (· < 67108864) && w.getD 9 0 < 4194304
def normPreB (f : FV) : Bool := (fvWords f).all fun w => w.toNat ≤ 4292870144

def fieldSpec (op : String) (a : List String) (res : String) : Bool :=
  let pP := GoBk.Spec.P
  let fvA := fun i => (a[i]?.bind parseFV).getD zero
  let kA := fun i => (a[i]?.bind String.toNat?).getD 0
  let rFV := (parseFV ((res.drop 3).toString)).getD zero      -- "ok <words>"
  let rBit := res == "ok 1"
  let x := fvA 0; let y := fvA 1
  match op with
  | "field.normalise" => !normPreB x || (fvVal rFV == fvVal x % pP && canonB rFV)
  | "field.add" | "field.add2" | "field.add2.r1" | "field.add2.r2" =>
    minMag x + minMag y > 63 || fvVal rFV == fvVal x + fvVal y
  | "field.addself" | "field.add2.r12" => 2 * minMag x > 63 || fvVal rFV == 2 * fvVal x
  | "field.addint" => minMag x + 1 > 63 || kA 1 > 68157440 || fvVal rFV == fvVal x + kA 1
  | "field.neg" | "field.negval" => kA 1 > 63 || minMag x > kA 1 || (fvVal rFV + fvVal x) % pP == 0
  | "field.mulint" => kA 1 * minMag x > 63 || fvVal rFV == kA 1 * fvVal x
  | "field.mul" | "field.mul2" | "field.mul2.r1" | "field.mul2.r2" =>
    minMag x > 8 || minMag y > 8 || fvVal rFV % pP == fvVal x * fvVal y % pP
  | "field.mulself" | "field.mul2.r12" | "field.sq" | "field.sqval" =>
    minMag x > 8 || fvVal rFV % pP == fvVal x * fvVal x % pP
  | "field.inv" => minMag x > 8 || fvVal rFV % pP == GoBk.Spec.powMod (fvVal x) (pP - 2) pP
  | "field.sqrt" => minMag x > 8 || fvVal rFV % pP == GoBk.Spec.powMod (fvVal x) ((pP + 1) / 4) pP
  | "field.eq" => rBit == (fvWords x == fvWords y)
  | "field.eqself" => rBit
  | "field.iszero" => rBit == (fvWords x).all (· == 0)
  | "field.isodd" => rBit == ((fvWords x).headD 0 % 2 == 1)
  | "field.setbytes" | "field.setbytes32" =>
    match a[0]?.bind unhexB with
    | some b => fvVal rFV == beNat (b.take 32) && canonB rFV
    | none => true
  | "field.putbytes" | "field.bytes" =>
    !canonB x || (match unhexB ((res.drop 3).toString) with | some b => beNat b == fvVal x && b.length == 32 | none => false)
  | _ => true

def runFieldOp (op : String) (a : List String) : Option String :=
  match runFieldOpRaw op a with
  | none => none
  | some r =>
    if op.startsWith "field." && op != "field.exact" && op != "field.contract" && r.startsWith "ok" then
      some (r ++ " S=" ++ b2s (fieldSpec op a r))
    else some r

end Driver
