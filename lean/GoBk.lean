import GoBk.Base.Bytes
