package main

// `gobkgen -pins`: a fingerprint of every function and package-level declaration of the eight packages as a JSON
// object name -> sha256 of its comment-free, gofmt-normalised source text.  Names: pkg.Func, pkg.Recv.Method,
// pkg:var:Name / pkg:const:Name / pkg:type:Name (one entry per declaration group, named after its first name).
// Files excluded from the regular build (tagged files, _test.go, the verif hooks) are skipped.
// The check compares these with source_pins.json: the hand-written models were transcribed from, and validated
// against, exactly that text.
import (
	"bytes"
	"crypto/sha256"
	"encoding/hex"
	"encoding/json"
	"flag"
	"fmt"
	"go/ast"
	"go/parser"
	"go/printer"
	"go/token"
	"os"
	"path/filepath"
	"strings"
)

var pinsFlag = flag.Bool("pins", false, "print source fingerprints (JSON) and exit")

func recvName(fd *ast.FuncDecl) string {
	t := fd.Recv.List[0].Type
	if st, ok := t.(*ast.StarExpr); ok {
		t = st.X
	}
	if ix, ok := t.(*ast.IndexExpr); ok {
		t = ix.X
	}
	if id, ok := t.(*ast.Ident); ok {
		return id.Name
	}
	return "?"
}

func listPins() {
	pins := map[string]string{}
	sels := map[string][]string{} // function -> names of the methods it calls through a selector (x.M(...))
	for _, pkg := range []string{"base58", "bec", "bip32", "bip39", "chaincfg", "crypto", "envelope", "wif"} {
		files, _ := filepath.Glob(filepath.Join(*repo, pkg, "*.go"))
		for _, f := range files {
			if strings.HasSuffix(f, "_test.go") {
				continue
			}
			src, err := os.ReadFile(f)
			if err != nil {
				die("%v", err)
			}
			head := string(src)
			if i := strings.Index(head, "\npackage "); i >= 0 {
				head = head[:i]
			}
			if strings.Contains(head, "+build") || strings.Contains(head, "go:build") {
				continue
			}
			fset := token.NewFileSet()
			af, err := parser.ParseFile(fset, f, src, 0) // no comments
			if err != nil {
				die("parse %s: %v", f, err)
			}
			hash := func(n ast.Node) string {
				var buf bytes.Buffer
				if err := (&printer.Config{Mode: printer.UseSpaces, Tabwidth: 1}).Fprint(&buf, token.NewFileSet(), n); err != nil {
					die("print: %v", err)
				}
				// collapse all white space: the layout is not part of the pinned text
				s := strings.Join(strings.Fields(buf.String()), " ")
				h := sha256.Sum256([]byte(s))
				return hex.EncodeToString(h[:12])
			}
			for _, d := range af.Decls {
				switch d := d.(type) {
				case *ast.FuncDecl:
					d.Doc = nil
					name := pkg + "." + d.Name.Name
					if d.Recv != nil {
						name = pkg + "." + recvName(d) + "." + d.Name.Name
					}
					if _, dup := pins[name]; dup { // several init functions
						name += "#" + filepath.Base(f)
					}
					pins[name] = hash(d)
					seen := map[string]bool{}
					ast.Inspect(d, func(n ast.Node) bool {
						if ce, ok := n.(*ast.CallExpr); ok {
							if se, ok := ce.Fun.(*ast.SelectorExpr); ok && !seen[se.Sel.Name] {
								seen[se.Sel.Name] = true
								sels[name] = append(sels[name], se.Sel.Name)
							}
						}
						return true
					})
				case *ast.GenDecl:
					if d.Tok == token.IMPORT {
						continue
					}
					d.Doc = nil
					first := "_"
					for _, sp := range d.Specs {
						switch sp := sp.(type) {
						case *ast.ValueSpec:
							sp.Doc, sp.Comment = nil, nil
							if first == "_" {
								first = sp.Names[0].Name
							}
						case *ast.TypeSpec:
							sp.Doc, sp.Comment = nil, nil
							if first == "_" {
								first = sp.Name.Name
							}
						}
					}
					name := fmt.Sprintf("%s:%s:%s", pkg, d.Tok.String(), first)
					if _, dup := pins[name]; dup {
						name += "#" + filepath.Base(f)
					}
					pins[name] = hash(d)
				}
			}
		}
	}
	out, _ := json.MarshalIndent(map[string]interface{}{"pins": pins, "selectors": sels}, "", " ")
	fmt.Println(string(out))
}
