package main

// `gobkgen -api`: the exported API of the eight packages, one name per line
// (Package.Func or Package.Type.Method), read from /repo's working tree.  Files excluded from the
// regular build (`+build ignore`, generator tags, _test.go, verif hooks) are skipped.
import (
	"flag"
	"fmt"
	"go/ast"
	"go/parser"
	"go/token"
	"os"
	"path/filepath"
	"sort"
	"strings"
)

var apiFlag = flag.Bool("api", false, "print the exported API and exit")

func listAPI() {
	var names []string
	for _, pkg := range []string{"base58", "bec", "bip32", "bip39", "chaincfg", "crypto", "envelope", "wif"} {
		files, _ := filepath.Glob(filepath.Join(*repo, pkg, "*.go"))
		for _, f := range files {
			if strings.HasSuffix(f, "_test.go") {
				continue
			}
			src, err := os.ReadFile(f)
			if err != nil {
				die("%v", err)
			}
			head := string(src)
			if i := strings.Index(head, "\npackage "); i >= 0 {
				head = head[:i]
			}
			if strings.Contains(head, "+build") || strings.Contains(head, "go:build") {
				continue // tagged files are not part of the regular build
			}
			fset := token.NewFileSet()
			af, err := parser.ParseFile(fset, f, src, 0)
			if err != nil {
				die("parse %s: %v", f, err)
			}
			for _, d := range af.Decls {
				fd, ok := d.(*ast.FuncDecl)
				if !ok || !fd.Name.IsExported() {
					continue
				}
				if fd.Recv == nil {
					names = append(names, pkg+"."+fd.Name.Name)
					continue
				}
				t := fd.Recv.List[0].Type
				if st, ok := t.(*ast.StarExpr); ok {
					t = st.X
				}
				id, ok := t.(*ast.Ident)
				if !ok || !id.IsExported() {
					continue
				}
				names = append(names, pkg+"."+id.Name+"."+fd.Name.Name)
			}
		}
	}
	sort.Strings(names)
	for _, n := range names {
		fmt.Println(n)
	}
}
