module gobkgen

go 1.23
