// facts.go — the C17 fact extractor.
//
// genFacts() type-checks the packages bec, bip32, bip39, chaincfg, base58, crypto, wif and
// envelope of the repository's working tree (no _test.go files, no files with build tags, no
// vendor code) and emits Gen/Facts.lean: every package-level variable, every syntactic write
// site to shared state with its enclosing function and context, every read of state that is
// initialised under a sync.Once, and the decidable check `disciplineOK` that the Lean theorem
// `GoBk.Props.C17.discipline_holds` evaluates.
//
// What "shared" means here.  A storage location is shared if it is reachable from
//   - a package-level variable of one of the eight packages,
//   - the curve singleton: any expression of type *bec.KoblitzCurve or *elliptic.CurveParams
//     (both can only denote bec.secp256k1, whose address is handed out by S256()),
//   - a receiver or parameter whose type is (a pointer to) an exported struct type of the eight
//     packages (ExtendedKey, PrivateKey, PublicKey, Signature, Params, WIF, ...): the caller may
//     share that object between goroutines.
//
// Aliases are followed through local variables (flow-insensitively, to a fixpoint), through
// composite literals, through the results of repository functions (a summary "which parameters /
// which shared state may the result alias" is iterated to a fixpoint) and through method chaining
// on *fieldVal / *big.Int.  For every function the set of pointer parameters it may WRITE is
// computed to a fixpoint as well (addJacobian normalises x1,y1,z1,x2,y2,z2 in place); a call that
// passes a shared pointer in a written position is a write site.
//
// Anything the extractor cannot classify gets context `other`, which makes disciplineOK false.
package main

import (
	"fmt"
	"go/ast"
	"go/importer"
	"go/parser"
	"go/printer"
	"go/token"
	"go/types"
	"os"
	"path/filepath"
	"sort"
	"strconv"
	"strings"
)

// ---------------------------------------------------------------------------------------------
// loading

var fxPkgs = []string{"bec", "bip32", "bip39", "chaincfg", "base58", "crypto", "wif", "envelope"}

// documented mutators: excluded from C17 by "read-only API calls".
var fxMutators = map[string]bool{
	"chaincfg.Register":        true,
	"bip32.ExtendedKey.Zero":   true,
	"bip32.ExtendedKey.SetNet": true,
	"bip32.zero":               true,
}

// types whose every pointer denotes the curve singleton bec.secp256k1
const fxCurveKey = "bec.secp256k1"

type fxPkg struct {
	short string
	path  string
	files []*ast.File
	info  *types.Info
	pkg   *types.Package
}

type fxLoader struct {
	fset *token.FileSet
	std  types.ImporterFrom
	repo string
	mod  string
	done map[string]*types.Package
	own  map[string]*fxPkg // by import path
}

func (m *fxLoader) Import(p string) (*types.Package, error) { return m.ImportFrom(p, "", 0) }

func (m *fxLoader) ImportFrom(p, dir string, mode types.ImportMode) (*types.Package, error) {
	if pk, ok := m.done[p]; ok {
		return pk, nil
	}
	if strings.HasPrefix(p, m.mod+"/") {
		fp := m.check(p, filepath.Join(m.repo, strings.TrimPrefix(p, m.mod+"/")))
		return fp.pkg, nil
	}
	if st, err := os.Stat(filepath.Join(m.repo, "vendor", p)); err == nil && st.IsDir() {
		fp := m.check(p, filepath.Join(m.repo, "vendor", p))
		return fp.pkg, nil
	}
	return m.std.ImportFrom(p, dir, mode)
}

func fxHasBuildTag(f *ast.File) bool {
	for _, cg := range f.Comments {
		if cg.Pos() > f.Package {
			break
		}
		for _, c := range cg.List {
			t := strings.TrimSpace(strings.TrimPrefix(c.Text, "//"))
			if strings.HasPrefix(t, "go:build") || strings.HasPrefix(t, "+build") {
				return true
			}
		}
	}
	return false
}

func (m *fxLoader) check(path, dir string) *fxPkg {
	ents, err := os.ReadDir(dir)
	if err != nil {
		die("facts: %v", err)
	}
	var files []*ast.File
	for _, e := range ents {
		n := e.Name()
		if e.IsDir() || !strings.HasSuffix(n, ".go") || strings.HasSuffix(n, "_test.go") {
			continue
		}
		f, err := parser.ParseFile(m.fset, filepath.Join(dir, n), nil, parser.ParseComments)
		if err != nil {
			die("facts: parse %s: %v", n, err)
		}
		if fxHasBuildTag(f) {
			continue
		}
		files = append(files, f)
	}
	info := &types.Info{
		Types:      map[ast.Expr]types.TypeAndValue{},
		Defs:       map[*ast.Ident]types.Object{},
		Uses:       map[*ast.Ident]types.Object{},
		Selections: map[*ast.SelectorExpr]*types.Selection{},
		Implicits:  map[ast.Node]types.Object{},
	}
	var errs []string
	conf := types.Config{Importer: m, Error: func(err error) { errs = append(errs, err.Error()) }}
	pk, _ := conf.Check(path, m.fset, files, info)
	if len(errs) > 0 && strings.HasPrefix(path, m.mod+"/") {
		die("facts: type errors in %s: %s", path, strings.Join(errs, "; "))
	}
	m.done[path] = pk
	fp := &fxPkg{short: filepath.Base(path), path: path, files: files, info: info, pkg: pk}
	m.own[path] = fp
	return fp
}

func fxModulePath(repo string) string {
	b, err := os.ReadFile(filepath.Join(repo, "go.mod"))
	if err != nil {
		die("facts: %v", err)
	}
	for _, l := range strings.Split(string(b), "\n") {
		l = strings.TrimSpace(l)
		if strings.HasPrefix(l, "module ") {
			return strings.TrimSpace(strings.TrimPrefix(l, "module "))
		}
	}
	die("facts: no module line in go.mod")
	return ""
}

// ---------------------------------------------------------------------------------------------
// origins: what a pointer may point into / where a location lives
//
//	"S:<key>"      shared state with location key <key> ("bec.secp256k1", "bip32.ExtendedKey.pubKey")
//	"T:<pkg.Type>" an object of a shareable struct type, no field selected yet
//	"P:<i>"        whatever the i-th parameter (receiver = 0 for methods) points to
//	"L:<key>@<pos>" storage of a local object that this function publishes to <key> at <pos>
type oset map[string]bool

func (a oset) addAll(b oset) bool {
	ch := false
	for k := range b {
		if !a[k] {
			a[k] = true
			ch = true
		}
	}
	return ch
}

func ounion(xs ...oset) oset {
	r := oset{}
	for _, x := range xs {
		r.addAll(x)
	}
	return r
}

func (a oset) field(name string) oset {
	r := oset{}
	for k := range a {
		if strings.HasPrefix(k, "T:") {
			r["S:"+k[2:]+"."+name] = true
		} else {
			r[k] = true
		}
	}
	return r
}

// ---------------------------------------------------------------------------------------------
// analysis state

type fxFunc struct {
	pkg    *fxPkg
	decl   *ast.FuncDecl // nil for the package-initialiser pseudo function
	obj    *types.Func
	name   string // "bec.KoblitzCurve.addJacobian", "bec.S256", "bec.<pkginit>"
	params []*types.Var
	// summaries (global fixpoint)
	written map[int]string // param index -> witness "file:line text"
	ret     []oset         // per result index
	// per-function alias state (fixpoint inside the function)
	aliased   map[*types.Var]oset
	published map[*types.Var]oset
	litOf     map[*types.Var]*ast.FuncLit // local closure variables
	litRet    map[*ast.FuncLit][]oset
	// context
	ctx     string // "plain" | "init" | "once:<id>" | "mutator"
	refs    []fxRef
	changed bool
}

type fxRef struct { // a reference to a repository function from inside fn, in region `region`
	from   *fxFunc
	region string // "" or "once:<id>"
}

type fxWrite struct {
	pkg, fn, file string
	line          int
	kind          string
	target        string
	loc           string
	ctx           string
	pos           token.Pos
}

type fxRead struct {
	pkg, fn, file string
	line          int
	expr          string
	loc           string
	guard         string
}

type fxParamWrite struct {
	pkg, fn, param string
	idx            int
	exported       bool
	witness        string
}

type fxExt struct {
	callee, fn string
	line       int
	arg        int
	treat      string
}

type fxAnalysis struct {
	ld      *fxLoader
	pkgs    []*fxPkg
	funcs   []*fxFunc
	byObj   map[*types.Func]*fxFunc
	shTypes map[*types.TypeName]string // shareable struct types -> "pkg.Type"
	curveT  map[*types.TypeName]bool   // singleton types
	onceLit map[*ast.FuncLit]string    // literal passed to Do -> once id
	emit    bool
	writes  []fxWrite
	exts    []fxExt
	gos     []string // "fn:line" of go statements
	seenW   map[string]bool
	changed bool
}

func (a *fxAnalysis) pos(p token.Pos) (string, int) {
	pp := a.ld.fset.Position(p)
	rel, err := filepath.Rel(a.ld.repo, pp.Filename)
	if err != nil {
		rel = pp.Filename
	}
	return filepath.ToSlash(rel), pp.Line
}

func (a *fxAnalysis) text(n ast.Node) string {
	var sb strings.Builder
	if err := printer.Fprint(&sb, a.ld.fset, n); err != nil {
		return "?"
	}
	return strings.Join(strings.Fields(sb.String()), " ")
}

// ---------------------------------------------------------------------------------------------
// type helpers

func fxHasPointers(t types.Type) bool {
	return fxHasPointersD(t, 0)
}

func fxHasPointersD(t types.Type, d int) bool {
	if t == nil || d > 8 {
		return true
	}
	switch u := t.Underlying().(type) {
	case *types.Basic:
		return u.Kind() == types.UnsafePointer || u.Kind() == types.Invalid
	case *types.Pointer, *types.Slice, *types.Map, *types.Chan, *types.Signature, *types.Interface:
		return true
	case *types.Array:
		return fxHasPointersD(u.Elem(), d+1)
	case *types.Struct:
		for i := 0; i < u.NumFields(); i++ {
			if fxHasPointersD(u.Field(i).Type(), d+1) {
				return true
			}
		}
		return false
	case *types.Tuple:
		for i := 0; i < u.Len(); i++ {
			if fxHasPointersD(u.At(i).Type(), d+1) {
				return true
			}
		}
		return false
	}
	return true
}

func fxDeref(t types.Type) types.Type {
	if t == nil {
		return nil
	}
	if p, ok := t.Underlying().(*types.Pointer); ok {
		return p.Elem()
	}
	return t
}

func fxIsPtr(t types.Type) bool {
	if t == nil {
		return false
	}
	_, ok := t.Underlying().(*types.Pointer)
	return ok
}

func fxNamed(t types.Type) *types.TypeName {
	if t == nil {
		return nil
	}
	if n, ok := types.Unalias(t).(*types.Named); ok {
		return n.Obj()
	}
	return nil
}

func fxQual(t types.Type) string { // "math/big.Int" for *big.Int or big.Int
	n := fxNamed(fxDeref(t))
	if n == nil || n.Pkg() == nil {
		return ""
	}
	return n.Pkg().Path() + "." + n.Name()
}

// typeOrigins: origins every value of this static type carries regardless of where it came from
func (a *fxAnalysis) typeOrigins(t types.Type) oset {
	n := fxNamed(fxDeref(t))
	if n != nil && a.curveT[n] {
		return oset{"S:" + fxCurveKey: true}
	}
	return nil
}

// paramTypeOrigins: origins of a parameter / receiver of this type (the caller may share it)
func (a *fxAnalysis) paramTypeOrigins(t types.Type) oset {
	n := fxNamed(fxDeref(t))
	if n != nil {
		if k, ok := a.shTypes[n]; ok {
			return oset{"T:" + k: true}
		}
	}
	return nil
}

// ---------------------------------------------------------------------------------------------
// the per-function walker

type fxWalker struct {
	a  *fxAnalysis
	f  *fxFunc
	in *types.Info
	// lexical state
	region []string       // stack of once regions ("" when none)
	lits   []*ast.FuncLit // enclosing function literals
}

func (w *fxWalker) curRegion() string {
	for i := len(w.region) - 1; i >= 0; i-- {
		if w.region[i] != "" {
			return w.region[i]
		}
	}
	return ""
}

func (w *fxWalker) typeOf(e ast.Expr) types.Type {
	if tv, ok := w.in.Types[e]; ok {
		return tv.Type
	}
	if id, ok := e.(*ast.Ident); ok {
		if o := w.in.ObjectOf(id); o != nil {
			return o.Type()
		}
	}
	return nil
}

func (w *fxWalker) objVar(id *ast.Ident) *types.Var {
	o := w.in.ObjectOf(id)
	if v, ok := o.(*types.Var); ok {
		return v
	}
	return nil
}

func fxIsPkgLevel(v *types.Var) bool {
	return v != nil && v.Pkg() != nil && v.Parent() == v.Pkg().Scope()
}

func (w *fxWalker) pkgVarKey(v *types.Var) string {
	return filepath.Base(v.Pkg().Path()) + "." + v.Name()
}

func (w *fxWalker) isOwnPkg(p *types.Package) bool {
	if p == nil {
		return false
	}
	for _, fp := range w.a.pkgs {
		if fp.pkg == p {
			return true
		}
	}
	return false
}

// loc: origins of the storage location denoted by e (e must be addressable-ish)
func (w *fxWalker) loc(e ast.Expr) oset {
	switch x := e.(type) {
	case *ast.ParenExpr:
		return w.loc(x.X)
	case *ast.Ident:
		v := w.objVar(x)
		if v == nil {
			return oset{}
		}
		if fxIsPkgLevel(v) {
			if w.isOwnPkg(v.Pkg()) {
				return oset{"S:" + w.pkgVarKey(v): true}
			}
			return oset{"S:ext." + v.Pkg().Name() + "." + v.Name(): true}
		}
		return ounion(w.f.published[v])
	case *ast.SelectorExpr:
		if id, ok := x.X.(*ast.Ident); ok {
			if _, isPkg := w.in.ObjectOf(id).(*types.PkgName); isPkg {
				return w.loc(x.Sel)
			}
		}
		sel := w.in.Selections[x]
		if sel == nil || sel.Kind() != types.FieldVal {
			return oset{}
		}
		// embedded pointers on the path count as a dereference as well
		if fxIsPtr(w.typeOf(x.X)) || sel.Indirect() {
			return ounion(w.val(x.X), w.locIfValue(x.X)).field(x.Sel.Name)
		}
		return w.loc(x.X).field(x.Sel.Name)
	case *ast.IndexExpr:
		t := w.typeOf(x.X)
		if t == nil {
			return oset{}
		}
		switch t.Underlying().(type) {
		case *types.Array:
			return w.loc(x.X)
		case *types.Pointer, *types.Slice, *types.Map:
			return w.val(x.X)
		}
		return oset{}
	case *ast.StarExpr:
		return w.val(x.X)
	case *ast.CompositeLit:
		return oset{}
	}
	return oset{}
}

// locIfValue: for a non-pointer base reached through an embedded pointer
func (w *fxWalker) locIfValue(e ast.Expr) oset {
	if fxIsPtr(w.typeOf(e)) {
		return nil
	}
	return w.loc(e)
}

// val: origins the value of e may point into (pointer-like values) or that the pointers
// embedded in it may point into (struct / array values)
func (w *fxWalker) val(e ast.Expr) oset {
	t := w.typeOf(e)
	r := w.val0(e)
	if t != nil {
		if !fxHasPointers(t) {
			return oset{}
		}
		r = ounion(r, w.a.typeOrigins(t))
	}
	return r
}

func (w *fxWalker) val0(e ast.Expr) oset {
	switch x := e.(type) {
	case *ast.ParenExpr:
		return w.val(x.X)
	case *ast.Ident:
		v := w.objVar(x)
		if v == nil {
			return oset{}
		}
		if fxIsPkgLevel(v) {
			return w.loc(x)
		}
		return ounion(w.f.aliased[v], w.f.published[v])
	case *ast.SelectorExpr:
		if id, ok := x.X.(*ast.Ident); ok {
			if _, isPkg := w.in.ObjectOf(id).(*types.PkgName); isPkg {
				return w.val(x.Sel)
			}
		}
		sel := w.in.Selections[x]
		if sel == nil {
			return oset{}
		}
		if sel.Kind() != types.FieldVal {
			// method value: carries its receiver
			return w.val(x.X)
		}
		return ounion(w.loc(x), w.val(x.X).field(x.Sel.Name))
	case *ast.IndexExpr:
		t := w.typeOf(x.X)
		if t != nil {
			if _, ok := t.Underlying().(*types.Signature); ok { // generic instantiation
				return oset{}
			}
		}
		return ounion(w.loc(x), w.val(x.X))
	case *ast.StarExpr:
		return w.val(x.X)
	case *ast.UnaryExpr:
		if x.Op == token.AND {
			return ounion(w.loc(x.X), w.val(x.X))
		}
		if x.Op == token.ARROW {
			return w.val(x.X)
		}
		return oset{}
	case *ast.SliceExpr:
		t := w.typeOf(x.X)
		if t != nil {
			if _, ok := t.Underlying().(*types.Array); ok {
				return ounion(w.loc(x.X), w.val(x.X))
			}
			if b, ok := t.Underlying().(*types.Basic); ok && b.Info()&types.IsString != 0 {
				return oset{}
			}
		}
		return w.val(x.X)
	case *ast.CompositeLit:
		r := oset{}
		for _, el := range x.Elts {
			if kv, ok := el.(*ast.KeyValueExpr); ok {
				r.addAll(w.val(kv.Value))
				if _, isMap := w.typeOf(x).Underlying().(*types.Map); isMap {
					r.addAll(w.val(kv.Key))
				}
			} else {
				r.addAll(w.val(el))
			}
		}
		return r
	case *ast.TypeAssertExpr:
		return w.val(x.X)
	case *ast.CallExpr:
		return w.callResult(x)
	case *ast.FuncLit:
		return oset{}
	}
	return oset{}
}

// ---------------------------------------------------------------------------------------------
// calls

// non-mutating *big.Int methods; every other method of *big.Int writes its receiver
var fxBigReadOnly = map[string]bool{
	"Append": true, "Bit": true, "BitLen": true, "Bits": true, "Bytes": true, "Cmp": true, "CmpAbs": true,
	"FillBytes": true, "Float64": true, "Format": true, "GobEncode": true, "Int64": true, "IsInt64": true,
	"IsUint64": true, "MarshalJSON": true, "MarshalText": true, "ProbablyPrime": true, "Sign": true,
	"String": true, "Text": true, "TrailingZeroBits": true, "Uint64": true,
}

// *big.Int methods that also write one of their ARGUMENTS (index among the arguments)
var fxBigArgWrites = map[string][]int{
	"DivMod": {2}, "QuoRem": {2}, "GCD": {0, 1}, "FillBytes": {0}, "Append": {0},
}

// external functions / methods known to only read their pointer arguments and receiver, and to
// return a value that does not alias them.  key: "<pkgpath>.<Func>" or "<pkgpath>.<Type>.<Method>"
var fxExtReadOnly = map[string]bool{
	"bytes.Equal": true, "bytes.Compare": true, "bytes.Repeat": true, "bytes.HasPrefix": true, "bytes.NewReader": true,
	"crypto/hmac.New": true, "crypto/hmac.Equal": true,
	"crypto/sha256.Sum256": true, "crypto/sha512.Sum512": true,
	"encoding/hex.EncodeToString": true, "encoding/hex.DecodeString": true,
	"encoding/base64.Encoding.EncodeToString": true, "encoding/base64.Encoding.DecodeString": true,
	"encoding/binary.bigEndian.Uint32": true, "encoding/binary.littleEndian.Uint32": true,
	"encoding/binary.bigEndian.Uint16": true, "encoding/binary.bigEndian.Uint64": true,
	"encoding/json.Marshal": true,
	"errors.New":            true, "errors.Is": true,
	"fmt.Sprintf": true, "fmt.Errorf": true, "fmt.Sprint": true,
	"strings.Split": true, "strings.TrimSpace": true, "strings.Join": true, "strings.Fields": true,
	"strings.NewReader": true, "strings.HasSuffix": true, "strings.TrimRight": true, "strings.Repeat": true,
	"strings.Index": true, "strings.Contains": true,
	"sort.SearchStrings":  true,
	"crypto/ecdsa.Verify": true, // reads the key and r, s; calls Curve methods analysed here
	// reads the curve through its methods (analysed here) and crypto/rand.Reader (safe for concurrent use)
	"crypto/ecdsa.GenerateKey":      true,
	"crypto/aes.NewCipher":          true,
	"crypto/cipher.NewCBCEncrypter": true, "crypto/cipher.NewCBCDecrypter": true,
	// the stream constructors copy the iv and use the block only through its (read-only) methods
	"crypto/cipher.NewCFBEncrypter": true, "crypto/cipher.NewCFBDecrypter": true,
	"encoding/base64.NewDecoder":     true,
	"golang.org/x/crypto/pbkdf2.Key": true,
	"math/big.NewInt":                true,
	// *regexp.Regexp is documented safe for concurrent use except Longest
	"regexp.Regexp.MatchString": true, "regexp.Regexp.Match": true, "regexp.Regexp.FindStringSubmatch": true,
	"regexp.Regexp.FindString": true, "regexp.Regexp.String": true,
	// hash.Hash: Write reads its argument; Sum(nil) allocates
	"hash.Hash.Write": true, "io.Writer.Write": true,
	"error.Error": true,
}

// external functions that write through an argument: written argument indices (receiver = -1)
var fxExtWrites = map[string][]int{
	"encoding/binary.bigEndian.PutUint32":    {0},
	"encoding/binary.bigEndian.PutUint16":    {0},
	"encoding/binary.bigEndian.PutUint64":    {0},
	"encoding/binary.littleEndian.PutUint32": {0},
	"crypto/rand.Read":                       {0},
	"io.ReadFull":                            {1},
	"encoding/hex.Decode":                    {0},
	"encoding/hex.Encode":                    {0},
	"encoding/json.Unmarshal":                {1},
	"crypto/cipher.BlockMode.CryptBlocks":    {0},
	"crypto/cipher.Stream.XORKeyStream":      {0},
	"crypto/cipher.Block.Encrypt":            {0},
	"crypto/cipher.Block.Decrypt":            {0},
	"hash.Hash.Sum":                          {0}, // appends to its argument
	"hash.Hash.Reset":                        {-1},
	"regexp.Regexp.Longest":                  {-1},
	"sync.Once.Do":                           {}, // handled structurally
}

type fxCallee struct {
	own      *fxFunc      // repository function (or nil)
	ext      string       // external key
	recv     ast.Expr     // receiver expression (methods)
	recvPtr  bool         // method has pointer receiver
	builtin  string       // builtin name
	conv     bool         // type conversion
	funcVar  *types.Var   // call through a local func variable
	lit      *ast.FuncLit // immediately-invoked or bound literal
	sig      *types.Signature
	isBigInt bool
	isChain  bool // *fieldVal / *big.Int method returning its receiver type
	name     string
}

func (w *fxWalker) resolve(call *ast.CallExpr) fxCallee {
	var c fxCallee
	fun := ast.Unparen(call.Fun)
	if tv, ok := w.in.Types[fun]; ok && tv.IsType() {
		c.conv = true
		return c
	}
	if t := w.typeOf(fun); t != nil {
		if s, ok := t.Underlying().(*types.Signature); ok {
			c.sig = s
		}
	}
	switch x := fun.(type) {
	case *ast.Ident:
		switch o := w.in.ObjectOf(x).(type) {
		case *types.Builtin:
			c.builtin = o.Name()
		case *types.Func:
			w.setFunc(&c, o, nil)
		case *types.Var:
			c.funcVar = o
			c.lit = w.f.litOf[o]
			c.name = o.Name()
		}
	case *ast.SelectorExpr:
		if sel := w.in.Selections[x]; sel != nil {
			switch sel.Kind() {
			case types.MethodVal:
				fn := sel.Obj().(*types.Func)
				w.setFunc(&c, fn, x.X)
				// interface dispatch: the only implementation of elliptic.Curve in the repository
				if c.own == nil {
					if _, isIface := sel.Recv().Underlying().(*types.Interface); isIface && fxQual(sel.Recv()) == "crypto/elliptic.Curve" {
						for _, f := range w.a.funcs {
							if f.name == "bec.KoblitzCurve."+fn.Name() {
								c.own = f
								c.ext = ""
								c.recvPtr = true
							}
						}
					}
				}
			case types.FieldVal:
				c.name = x.Sel.Name
				c.funcVar = sel.Obj().(*types.Var)
			}
		} else if o, ok := w.in.ObjectOf(x.Sel).(*types.Func); ok { // pkg.Func
			w.setFunc(&c, o, nil)
		} else if o, ok := w.in.ObjectOf(x.Sel).(*types.Var); ok {
			c.funcVar = o
			c.name = x.Sel.Name
		}
	case *ast.FuncLit:
		c.lit = x
	}
	return c
}

func (w *fxWalker) setFunc(c *fxCallee, fn *types.Func, recv ast.Expr) {
	c.name = fn.Name()
	c.recv = recv
	sig := fn.Type().(*types.Signature)
	if r := sig.Recv(); r != nil {
		c.recvPtr = fxIsPtr(r.Type())
		q := fxQual(r.Type())
		if q == "" { // interface method
			if recv != nil {
				q = fxQual(w.typeOf(recv))
				if q == "" {
					if t := w.typeOf(recv); t != nil {
						q = t.String()
					}
				}
			}
		}
		c.ext = q + "." + fn.Name()
		c.isBigInt = q == "math/big.Int"
		if sig.Results().Len() == 1 && types.Identical(sig.Results().At(0).Type(), r.Type()) && c.recvPtr {
			c.isChain = q == "math/big.Int" || strings.HasSuffix(q, "/bec.fieldVal")
		}
	} else if fn.Pkg() != nil {
		c.ext = fn.Pkg().Path() + "." + fn.Name()
	}
	if f, ok := w.a.byObj[fn]; ok {
		c.own = f
		c.ext = ""
	} else if fn.Origin() != nil {
		if f, ok := w.a.byObj[fn.Origin()]; ok {
			c.own = f
			c.ext = ""
		}
	}
}

// recvOrigins: origins of the object a pointer-receiver method operates on
func (w *fxWalker) recvOrigins(c fxCallee) oset {
	if c.recv == nil {
		return oset{}
	}
	if c.recvPtr && !fxIsPtr(w.typeOf(c.recv)) {
		return ounion(w.loc(c.recv), w.valContainer(c.recv)) // implicit &recv
	}
	return w.val(c.recv)
}

func (w *fxWalker) valContainer(e ast.Expr) oset {
	if t := w.typeOf(e); t != nil && fxHasPointers(t) {
		return w.val(e)
	}
	return nil
}

// args as the callee sees them: index 0 = receiver for methods
func (w *fxWalker) actuals(c fxCallee, call *ast.CallExpr) []oset {
	var r []oset
	if c.recv != nil {
		r = append(r, w.recvOrigins(c))
	}
	for _, a := range call.Args {
		r = append(r, w.val(a))
	}
	return r
}

func fxSubst(ret oset, act []oset, variadicFrom int) oset {
	r := oset{}
	for k := range ret {
		if strings.HasPrefix(k, "P:") {
			i, _ := strconv.Atoi(k[2:])
			if i < len(act) {
				r.addAll(act[i])
			}
			if variadicFrom >= 0 && i == variadicFrom {
				for j := i + 1; j < len(act); j++ {
					r.addAll(act[j])
				}
			}
		} else if strings.HasPrefix(k, "L:") {
			// a callee-local publication: the result points into the published-to key
			key := k[2:]
			if at := strings.LastIndex(key, "@"); at >= 0 {
				key = key[:at]
			}
			r["S:"+key] = true
		} else {
			r[k] = true
		}
	}
	return r
}

func fxVariadicFrom(f *fxFunc) int {
	if f.obj == nil {
		return -1
	}
	sig := f.obj.Type().(*types.Signature)
	if !sig.Variadic() {
		return -1
	}
	n := sig.Params().Len() - 1
	if sig.Recv() != nil {
		n++
	}
	return n
}

// callResult: origins of the (first) result of a call in a single-value context
func (w *fxWalker) callResult(call *ast.CallExpr) oset {
	rs := w.callResults(call)
	if len(rs) == 0 {
		return oset{}
	}
	return rs[0]
}

func (w *fxWalker) resultTypes(call *ast.CallExpr) []types.Type {
	t := w.typeOf(call)
	if t == nil {
		return nil
	}
	if tup, ok := t.(*types.Tuple); ok {
		var r []types.Type
		for i := 0; i < tup.Len(); i++ {
			r = append(r, tup.At(i).Type())
		}
		return r
	}
	return []types.Type{t}
}

// callResults: origins of every result of a call
func (w *fxWalker) callResults(call *ast.CallExpr) []oset {
	rts := w.resultTypes(call)
	out := make([]oset, len(rts))
	all := w.callResultAll(call, len(rts))
	for i, t := range rts {
		var o oset
		if i < len(all) {
			o = all[i]
		}
		if o == nil || !fxHasPointers(t) {
			o = oset{}
		}
		out[i] = ounion(o, w.a.typeOrigins(t))
		if !fxHasPointers(t) {
			out[i] = oset{}
		}
	}
	return out
}

func fxRepeat(o oset, n int) []oset {
	r := make([]oset, n)
	for i := range r {
		r[i] = o
	}
	return r
}

func (w *fxWalker) callResultAll(call *ast.CallExpr, n int) []oset {
	c := w.resolve(call)
	switch {
	case c.conv:
		if len(call.Args) == 1 {
			at := w.typeOf(call.Args[0])
			if at != nil {
				if b, ok := at.Underlying().(*types.Basic); ok && b.Info()&types.IsString != 0 {
					return nil
				}
			}
			return fxRepeat(w.val(call.Args[0]), n)
		}
		return nil
	case c.builtin != "":
		switch c.builtin {
		case "append":
			r := oset{}
			for i, a := range call.Args {
				if i == 0 {
					r.addAll(w.val(a))
					continue
				}
				// element values only matter when they carry pointers
				if t := w.typeOf(a); t != nil {
					et := t
					if s, ok := t.Underlying().(*types.Slice); ok && call.Ellipsis.IsValid() && i == len(call.Args)-1 {
						et = s.Elem()
					}
					if b, ok := t.Underlying().(*types.Basic); ok && b.Info()&types.IsString != 0 {
						continue
					}
					if fxHasPointers(et) {
						r.addAll(w.val(a))
					}
				}
			}
			return fxRepeat(r, n)
		case "min", "max":
			r := oset{}
			for _, a := range call.Args {
				r.addAll(w.val(a))
			}
			return fxRepeat(r, n)
		}
		return nil
	case c.own != nil:
		act := w.actuals(c, call)
		vf := fxVariadicFrom(c.own)
		out := make([]oset, n)
		for i := range out {
			if i < len(c.own.ret) {
				out[i] = fxSubst(c.own.ret[i], act, vf)
			}
		}
		return out
	case c.lit != nil:
		out := make([]oset, n)
		for i := range out {
			if i < len(w.f.litRet[c.lit]) {
				out[i] = ounion(w.f.litRet[c.lit][i])
			}
		}
		return out
	case c.isChain:
		return fxRepeat(w.recvOrigins(c), n)
	case c.ext != "":
		if fxExtReadOnly[c.ext] {
			return nil
		}
		if c.isBigInt {
			if c.name == "Bits" {
				return fxRepeat(w.recvOrigins(c), n)
			}
			return nil
		}
		r := oset{}
		for _, o := range w.actuals(c, call) {
			r.addAll(o)
		}
		return fxRepeat(r, n)
	}
	// call through an unknown function value: anything passed in may come out
	r := oset{}
	for _, a := range call.Args {
		r.addAll(w.val(a))
	}
	return fxRepeat(r, n)
}

// ---------------------------------------------------------------------------------------------
// recording

func (w *fxWalker) ctxAt() string {
	if r := w.curRegion(); r != "" {
		return r
	}
	return w.f.ctx
}

// write: the storage with origins `o` is written at node n
func (w *fxWalker) write(o oset, kind string, n ast.Node, target string) {
	keys := make([]string, 0, len(o))
	for k := range o {
		keys = append(keys, k)
	}
	sort.Strings(keys)
	for _, k := range keys {
		switch {
		case strings.HasPrefix(k, "P:"):
			if w.curRegion() != "" {
				// a write inside a once body is synchronised by the once; it is recorded as a
				// write site of the shared origin, not as an effect of the enclosing function
				continue
			}
			i, _ := strconv.Atoi(k[2:])
			if _, ok := w.f.written[i]; !ok {
				file, line := w.a.pos(n.Pos())
				w.f.written[i] = fmt.Sprintf("%s:%d %s", file, line, target)
				w.a.changed = true
			}
		case strings.HasPrefix(k, "S:"), strings.HasPrefix(k, "T:"), strings.HasPrefix(k, "L:"):
			if !w.a.emit {
				continue
			}
			ctx := w.ctxAt()
			loc := k[2:]
			if strings.HasPrefix(k, "T:") {
				loc += ".*"
			}
			if strings.HasPrefix(k, "L:") {
				at := strings.LastIndex(loc, "@")
				pubPos, _ := strconv.Atoi(loc[at+1:])
				loc = loc[:at]
				if ctx == "plain" {
					if int(n.Pos()) < pubPos {
						ctx = "local"
					}
				}
			}
			if ctx == "plain" {
				ctx = "other"
			}
			file, line := w.a.pos(n.Pos())
			ws := fxWrite{pkg: w.f.pkg.short, fn: w.f.name, file: file, line: line, kind: kind, target: target, loc: loc, ctx: ctx, pos: n.Pos()}
			key := fmt.Sprintf("%s|%d|%d|%s|%s|%s", file, line, n.Pos(), kind, loc, target)
			if !w.a.seenW[key] {
				w.a.seenW[key] = true
				w.a.writes = append(w.a.writes, ws)
			}
		}
	}
}

func (w *fxWalker) alias(v *types.Var, o oset) {
	if v == nil || fxIsPkgLevel(v) || len(o) == 0 {
		return
	}
	if !fxHasPointers(v.Type()) {
		return
	}
	if w.f.aliased[v] == nil {
		w.f.aliased[v] = oset{}
	}
	if w.f.aliased[v].addAll(o) {
		w.f.changed = true
	}
}

// publish: a pointer with value-origins `what` (syntactically rhs) is stored into shared storage `into`
func (w *fxWalker) publish(rhs ast.Expr, into oset, at token.Pos) {
	shared := oset{}
	for k := range into {
		if strings.HasPrefix(k, "S:") {
			shared["L:"+k[2:]+"@"+strconv.Itoa(int(at))] = true
		} else if strings.HasPrefix(k, "T:") {
			shared["L:"+k[2:]+".*@"+strconv.Itoa(int(at))] = true
		}
	}
	if len(shared) == 0 {
		return
	}
	// which local storage does rhs point to?  &v, &v[i], v[:]  (v a local value object)
	var root func(e ast.Expr) *types.Var
	root = func(e ast.Expr) *types.Var {
		switch x := e.(type) {
		case *ast.ParenExpr:
			return root(x.X)
		case *ast.Ident:
			v := w.objVar(x)
			if v != nil && !fxIsPkgLevel(v) {
				return v
			}
		case *ast.IndexExpr:
			if t := w.typeOf(x.X); t != nil {
				if _, ok := t.Underlying().(*types.Array); ok {
					return root(x.X)
				}
			}
		case *ast.SelectorExpr:
			if sel := w.in.Selections[x]; sel != nil && sel.Kind() == types.FieldVal && !fxIsPtr(w.typeOf(x.X)) && !sel.Indirect() {
				return root(x.X)
			}
		case *ast.SliceExpr:
			if t := w.typeOf(x.X); t != nil {
				if _, ok := t.Underlying().(*types.Array); ok {
					return root(x.X)
				}
			}
		}
		return nil
	}
	var v *types.Var
	switch x := ast.Unparen(rhs).(type) {
	case *ast.UnaryExpr:
		if x.Op == token.AND {
			v = root(x.X)
		}
	case *ast.SliceExpr:
		v = root(x)
	}
	if v == nil {
		return
	}
	if w.f.published[v] == nil {
		w.f.published[v] = oset{}
	}
	// keep only the earliest publication per key
	for k := range shared {
		base := k[:strings.LastIndex(k, "@")]
		dup := false
		for old := range w.f.published[v] {
			if strings.HasPrefix(old, base+"@") {
				dup = true
			}
		}
		if !dup {
			w.f.published[v][k] = true
			w.f.changed = true
		}
	}
}

func (w *fxWalker) assign(lhs ast.Expr, rhs ast.Expr, rhsVal oset, kind string, n ast.Node) {
	if id, ok := lhs.(*ast.Ident); ok && id.Name == "_" {
		return
	}
	lo := w.loc(lhs)
	w.write(lo, kind, n, w.a.text(lhs))
	if id, ok := ast.Unparen(lhs).(*ast.Ident); ok {
		if v := w.objVar(id); v != nil && !fxIsPkgLevel(v) {
			w.alias(v, rhsVal)
			if rhs != nil {
				if fl, ok := ast.Unparen(rhs).(*ast.FuncLit); ok {
					w.f.litOf[v] = fl
				}
			}
		}
	}
	if rhs != nil {
		w.publish(rhs, lo, n.Pos())
	}
	// storing a shared pointer into a local container taints the container root
	if len(rhsVal) > 0 {
		if r := fxRootIdent(lhs); r != nil {
			if v := w.objVar(r); v != nil && !fxIsPkgLevel(v) {
				if _, isIdent := ast.Unparen(lhs).(*ast.Ident); !isIdent {
					w.alias(v, rhsVal)
				}
			}
		}
	}
}

func fxRootIdent(e ast.Expr) *ast.Ident {
	for {
		switch x := e.(type) {
		case *ast.ParenExpr:
			e = x.X
		case *ast.SelectorExpr:
			e = x.X
		case *ast.IndexExpr:
			e = x.X
		case *ast.StarExpr:
			e = x.X
		case *ast.SliceExpr:
			e = x.X
		case *ast.Ident:
			return x
		default:
			return nil
		}
	}
}

// isFullArraySlice: arr[:] of an array has cap == len, so append never writes into it
func (w *fxWalker) isFullArraySlice(e ast.Expr) bool {
	se, ok := ast.Unparen(e).(*ast.SliceExpr)
	if !ok || se.High != nil || se.Max != nil {
		return false
	}
	t := w.typeOf(se.X)
	if t == nil {
		return false
	}
	_, isArr := t.Underlying().(*types.Array)
	return isArr
}

func (w *fxWalker) onceID(e ast.Expr) string {
	// e is the receiver of .Do
	switch x := ast.Unparen(e).(type) {
	case *ast.Ident:
		if v := w.objVar(x); v != nil && fxIsPkgLevel(v) {
			return w.pkgVarKey(v)
		}
		return "local." + x.Name
	case *ast.SelectorExpr:
		if sel := w.in.Selections[x]; sel != nil && sel.Kind() == types.FieldVal {
			if n := fxNamed(fxDeref(sel.Recv())); n != nil && n.Pkg() != nil {
				return filepath.Base(n.Pkg().Path()) + "." + n.Name() + "." + x.Sel.Name
			}
		}
		if id, ok := x.X.(*ast.Ident); ok {
			if _, isPkg := w.in.ObjectOf(id).(*types.PkgName); isPkg {
				if v := w.objVar(x.Sel); v != nil {
					return w.pkgVarKey(v)
				}
			}
		}
	case *ast.UnaryExpr:
		if x.Op == token.AND {
			return w.onceID(x.X)
		}
	}
	return "unknown." + w.a.text(e)
}

func (w *fxWalker) isOnceDo(call *ast.CallExpr) (string, bool) {
	sel, ok := ast.Unparen(call.Fun).(*ast.SelectorExpr)
	if !ok || sel.Sel.Name != "Do" || len(call.Args) != 1 {
		return "", false
	}
	if fxQual(w.typeOf(sel.X)) != "sync.Once" {
		return "", false
	}
	return w.onceID(sel.X), true
}

func (w *fxWalker) noteRef(fn *types.Func, region string) {
	f, ok := w.a.byObj[fn]
	if !ok {
		return
	}
	for _, r := range f.refs {
		if r.from == w.f && r.region == region {
			return
		}
	}
	f.refs = append(f.refs, fxRef{from: w.f, region: region})
}

func (w *fxWalker) call(call *ast.CallExpr) {
	c := w.resolve(call)
	tgt := w.a.text(call)
	if len(tgt) > 90 {
		tgt = tgt[:87] + "..."
	}
	switch {
	case c.conv:
		return
	case c.builtin != "":
		switch c.builtin {
		case "copy":
			if len(call.Args) == 2 {
				w.write(w.val(call.Args[0]), "passWritten", call, tgt)
			}
		case "delete", "clear":
			if len(call.Args) >= 1 {
				w.write(w.val(call.Args[0]), "passWritten", call, tgt)
			}
		case "append":
			// append may write into the spare capacity of its first argument
			if len(call.Args) >= 1 && !w.isFullArraySlice(call.Args[0]) {
				w.write(w.val(call.Args[0]), "append", call, tgt)
			}
		}
		return
	case c.own != nil:
		act := w.actuals(c, call)
		vf := fxVariadicFrom(c.own)
		for i, o := range act {
			j := i
			if vf >= 0 && i > vf {
				j = vf
			}
			if _, wr := c.own.written[j]; wr {
				kind := "passWritten"
				if i == 0 && c.recv != nil {
					kind = "mutCall"
				}
				w.write(o, kind, call, tgt)
			}
		}
		// a bound closure parameter gets the actuals
		return
	case c.lit != nil:
		if c.lit.Type.Params != nil {
			i := 0
			for _, fld := range c.lit.Type.Params.List {
				for _, nm := range fld.Names {
					if i < len(call.Args) {
						w.alias(w.objVar(nm), w.val(call.Args[i]))
					}
					i++
				}
			}
		}
		return
	case c.ext != "":
		if _, isDo := w.isOnceDo(call); isDo {
			return
		}
		act := w.actuals(c, call)
		off := 0
		if c.recv != nil {
			off = 1
		}
		if c.isBigInt {
			if !fxBigReadOnly[c.name] {
				w.write(act[0], "mutCall", call, tgt)
			}
			for _, ai := range fxBigArgWrites[c.name] {
				if ai+off < len(act) {
					w.write(act[ai+off], "passWritten", call, tgt)
				}
			}
			return
		}
		if fxExtReadOnly[c.ext] {
			return
		}
		if ws, ok := fxExtWrites[c.ext]; ok {
			for _, ai := range ws {
				if ai == -1 {
					if c.recv != nil {
						w.write(act[0], "mutCall", call, tgt)
					}
				} else if ai+off < len(act) {
					w.write(act[ai+off], "passWritten", call, tgt)
				}
			}
			return
		}
		// unknown external callee: every pointer-carrying actual may be written
		for i, o := range act {
			if len(o) == 0 {
				continue
			}
			if w.a.emit {
				_, line := w.a.pos(call.Pos())
				w.a.exts = append(w.a.exts, fxExt{callee: c.ext, fn: w.f.name, line: line, arg: i - off, treat: "unknown"})
			}
			w.write(o, "passUnknown", call, tgt)
		}
		return
	}
	// unknown function value
	for _, a := range call.Args {
		if o := w.val(a); len(o) > 0 {
			w.write(o, "passUnknown", call, tgt)
		}
	}
}

// ---------------------------------------------------------------------------------------------
// the walk

func (w *fxWalker) walkBody(n ast.Node) {
	if n == nil {
		return
	}
	var stack []ast.Node
	ast.Inspect(n, func(x ast.Node) bool {
		if x == nil {
			top := stack[len(stack)-1]
			stack = stack[:len(stack)-1]
			if fl, ok := top.(*ast.FuncLit); ok {
				w.lits = w.lits[:len(w.lits)-1]
				w.region = w.region[:len(w.region)-1]
				_ = fl
			}
			return true
		}
		stack = append(stack, x)
		switch s := x.(type) {
		case *ast.FuncLit:
			w.lits = append(w.lits, s)
			w.region = append(w.region, w.a.onceLit[s]) // "" unless passed to Do
		case *ast.AssignStmt:
			w.assignStmt(s)
		case *ast.IncDecStmt:
			w.write(w.loc(s.X), "incDec", s, w.a.text(s.X))
		case *ast.RangeStmt:
			w.rangeStmt(s)
		case *ast.GenDecl:
			if s.Tok == token.VAR {
				for _, sp := range s.Specs {
					vs := sp.(*ast.ValueSpec)
					w.valueSpec(vs)
				}
			}
		case *ast.ReturnStmt:
			w.returnStmt(s)
		case *ast.CallExpr:
			if id, ok := w.isOnceDo(s); ok {
				switch a0 := ast.Unparen(s.Args[0]).(type) {
				case *ast.FuncLit:
					w.a.onceLit[a0] = "once:" + id
				case *ast.Ident:
					if fn, ok := w.in.ObjectOf(a0).(*types.Func); ok {
						w.noteRef(fn, "once:"+id)
					}
				case *ast.SelectorExpr:
					if fn, ok := w.in.ObjectOf(a0.Sel).(*types.Func); ok {
						w.noteRef(fn, "once:"+id)
					}
				}
			}
			w.call(s)
		case *ast.Ident:
			if fn, ok := w.in.Uses[s].(*types.Func); ok {
				// a Do(fn) argument was already noted with its region
				isDoArg := false
				if len(stack) >= 2 {
					if ce, ok := stack[len(stack)-2].(*ast.CallExpr); ok {
						if _, isDo := w.isOnceDo(ce); isDo && len(ce.Args) == 1 && ast.Unparen(ce.Args[0]) == ast.Expr(s) {
							isDoArg = true
						}
					}
				}
				if !isDoArg {
					w.noteRef(fn, w.curRegion())
				}
			}
		case *ast.SendStmt:
			w.write(w.val(s.Chan), "passUnknown", s, w.a.text(s))
		case *ast.GoStmt:
			if w.a.emit {
				file, line := w.a.pos(s.Pos())
				w.a.gos = append(w.a.gos, fmt.Sprintf("%s %s:%d", w.f.name, file, line))
			}
		}
		return true
	})
}

func (w *fxWalker) assignStmt(s *ast.AssignStmt) {
	kind := "assign"
	if s.Tok != token.ASSIGN && s.Tok != token.DEFINE {
		kind = "opAssign"
	}
	if len(s.Lhs) == len(s.Rhs) {
		for i := range s.Lhs {
			w.assign(s.Lhs[i], s.Rhs[i], w.val(s.Rhs[i]), kind, s)
		}
		return
	}
	// tuple assignment from a call / map index / type assertion / receive
	var rv oset
	var rvs []oset
	if len(s.Rhs) == 1 {
		if call, ok := ast.Unparen(s.Rhs[0]).(*ast.CallExpr); ok {
			rvs = w.callResults(call)
		} else {
			rv = w.val(s.Rhs[0])
		}
	}
	for i, l := range s.Lhs {
		if rvs != nil {
			if i < len(rvs) {
				w.assign(l, nil, rvs[i], kind, s)
			} else {
				w.assign(l, nil, oset{}, kind, s)
			}
			continue
		}
		w.assign(l, nil, rv, kind, s)
	}
}

func (w *fxWalker) rangeStmt(s *ast.RangeStmt) {
	xv := w.val(s.X)
	if t := w.typeOf(s.X); t != nil {
		if _, ok := t.Underlying().(*types.Array); ok {
			xv = ounion(xv, w.valContainer(s.X))
		}
	}
	if s.Key != nil {
		w.assign(s.Key, nil, xv, "assign", s)
	}
	if s.Value != nil {
		w.assign(s.Value, nil, xv, "assign", s)
	}
}

func (w *fxWalker) valueSpec(vs *ast.ValueSpec) {
	if len(vs.Values) == len(vs.Names) {
		for i, nm := range vs.Names {
			w.assign(nm, vs.Values[i], w.val(vs.Values[i]), "assign", vs)
		}
	} else if len(vs.Values) == 1 {
		rv := w.val(vs.Values[0])
		var rvs []oset
		if call, ok := ast.Unparen(vs.Values[0]).(*ast.CallExpr); ok {
			rvs = w.callResults(call)
		}
		for i, nm := range vs.Names {
			if rvs != nil && i < len(rvs) {
				w.assign(nm, nil, rvs[i], "assign", vs)
			} else {
				w.assign(nm, nil, rv, "assign", vs)
			}
		}
	}
}

func (w *fxWalker) returnStmt(s *ast.ReturnStmt) {
	var vals []oset
	if len(s.Results) == 1 {
		if call, ok := ast.Unparen(s.Results[0]).(*ast.CallExpr); ok {
			vals = w.callResults(call)
		}
	}
	if vals == nil {
		for _, r := range s.Results {
			vals = append(vals, w.val(r))
		}
	}
	// named results: a bare return returns the named result variables
	if len(s.Results) == 0 && len(w.lits) == 0 && w.f.decl != nil && w.f.decl.Type.Results != nil {
		for _, fld := range w.f.decl.Type.Results.List {
			for _, nm := range fld.Names {
				o := oset{}
				if v := w.objVar(nm); v != nil {
					o = ounion(w.f.aliased[v], w.f.published[v])
				}
				vals = append(vals, o)
			}
		}
	}
	var into *[]oset
	var lit *ast.FuncLit
	if len(w.lits) > 0 {
		lit = w.lits[len(w.lits)-1]
		cur := w.f.litRet[lit]
		into = &cur
	} else {
		into = &w.f.ret
	}
	ch := false
	for i, o := range vals {
		for len(*into) <= i {
			*into = append(*into, oset{})
		}
		if (*into)[i].addAll(o) {
			ch = true
		}
	}
	if lit != nil {
		w.f.litRet[lit] = *into
	}
	if ch {
		if lit != nil {
			w.f.changed = true
		} else {
			w.a.changed = true
		}
	}
}

func (a *fxAnalysis) analyse(f *fxFunc) {
	w := &fxWalker{a: a, f: f, in: f.pkg.info}
	for iter := 0; iter < 50; iter++ {
		f.changed = false
		w.region, w.lits = nil, nil
		saveEmit := a.emit
		a.emit = false
		if f.decl != nil {
			w.walkBody(f.decl.Body)
		} else {
			a.walkPkgInit(w)
		}
		a.emit = saveEmit
		if !f.changed {
			break
		}
	}
	if a.emit {
		w.region, w.lits = nil, nil
		if f.decl != nil {
			w.walkBody(f.decl.Body)
		} else {
			a.walkPkgInit(w)
		}
	}
}

func (a *fxAnalysis) walkPkgInit(w *fxWalker) {
	for _, file := range w.f.pkg.files {
		for _, d := range file.Decls {
			if gd, ok := d.(*ast.GenDecl); ok && gd.Tok == token.VAR {
				for _, sp := range gd.Specs {
					vs := sp.(*ast.ValueSpec)
					for _, v := range vs.Values {
						w.walkBody(v)
					}
				}
			}
		}
	}
}

// ---------------------------------------------------------------------------------------------
// driver

func fxFuncName(short string, fd *ast.FuncDecl) string {
	if fd.Recv != nil && len(fd.Recv.List) == 1 {
		t := fd.Recv.List[0].Type
		if s, ok := t.(*ast.StarExpr); ok {
			t = s.X
		}
		if ix, ok := t.(*ast.IndexExpr); ok {
			t = ix.X
		}
		if id, ok := t.(*ast.Ident); ok {
			return short + "." + id.Name + "." + fd.Name.Name
		}
	}
	return short + "." + fd.Name.Name
}

func (a *fxAnalysis) setup() {
	a.byObj = map[*types.Func]*fxFunc{}
	a.shTypes = map[*types.TypeName]string{}
	a.curveT = map[*types.TypeName]bool{}
	a.onceLit = map[*ast.FuncLit]string{}
	a.seenW = map[string]bool{}
	for _, p := range a.pkgs {
		sc := p.pkg.Scope()
		for _, nm := range sc.Names() {
			tn, ok := sc.Lookup(nm).(*types.TypeName)
			if !ok || !tn.Exported() {
				continue
			}
			if _, isStruct := tn.Type().Underlying().(*types.Struct); !isStruct {
				continue
			}
			if p.short == "bec" && nm == "KoblitzCurve" {
				a.curveT[tn] = true
				continue
			}
			a.shTypes[tn] = p.short + "." + nm
		}
		// the pseudo function for package-level initialisers
		pi := &fxFunc{pkg: p, name: p.short + ".<pkginit>", ctx: "init"}
		a.initFunc(pi)
		a.funcs = append(a.funcs, pi)
		for _, file := range p.files {
			for _, d := range file.Decls {
				fd, ok := d.(*ast.FuncDecl)
				if !ok || fd.Body == nil {
					continue
				}
				obj, _ := p.info.Defs[fd.Name].(*types.Func)
				f := &fxFunc{pkg: p, decl: fd, obj: obj, name: fxFuncName(p.short, fd), ctx: "plain"}
				a.initFunc(f)
				if obj != nil {
					sig := obj.Type().(*types.Signature)
					if r := sig.Recv(); r != nil {
						f.params = append(f.params, r)
					}
					for i := 0; i < sig.Params().Len(); i++ {
						f.params = append(f.params, sig.Params().At(i))
					}
					if fd.Name.Name != "init" || fd.Recv != nil {
						a.byObj[obj] = f
					}
				}
				if fd.Name.Name == "init" && fd.Recv == nil {
					f.ctx = "init"
				}
				if fxMutators[f.name] {
					f.ctx = "mutator"
				}
				a.funcs = append(a.funcs, f)
			}
		}
	}
	// elliptic.CurveParams is only ever the embedded parameter block of the curve singleton
	for _, p := range a.pkgs {
		for _, imp := range p.pkg.Imports() {
			if imp.Path() == "crypto/elliptic" {
				if tn, ok := imp.Scope().Lookup("CurveParams").(*types.TypeName); ok {
					a.curveT[tn] = true
				}
			}
		}
	}
}

func (a *fxAnalysis) initFunc(f *fxFunc) {
	f.written = map[int]string{}
	f.ret = nil
	f.litOf = map[*types.Var]*ast.FuncLit{}
	f.litRet = map[*ast.FuncLit][]oset{}
	f.resetLocals(a)
}

func (f *fxFunc) resetLocals(a *fxAnalysis) {
	f.aliased = map[*types.Var]oset{}
	f.published = map[*types.Var]oset{}
}

func (a *fxAnalysis) seedParams(f *fxFunc) {
	for i, p := range f.params {
		if !fxHasPointers(p.Type()) {
			continue
		}
		o := oset{"P:" + strconv.Itoa(i): true}
		o.addAll(a.paramTypeOrigins(p.Type()))
		f.aliased[p] = o
	}
}

// contexts: init / once:<id> for unexported functions referenced only from such code
func (a *fxAnalysis) contexts() {
	for iter := 0; iter < 20; iter++ {
		ch := false
		for _, f := range a.funcs {
			if f.ctx != "plain" || f.obj == nil || f.obj.Exported() || len(f.refs) == 0 {
				continue
			}
			if f.decl != nil && f.decl.Recv != nil {
				// methods may be reached through interfaces; keep them plain
				continue
			}
			cand := ""
			ok := true
			for _, r := range f.refs {
				c := r.region
				if c == "" {
					c = r.from.ctx
				}
				if c == "plain" || c == "mutator" {
					ok = false
					break
				}
				if cand == "" {
					cand = c
				} else if cand != c {
					ok = false
					break
				}
			}
			if ok && cand != "" {
				f.ctx = cand
				ch = true
			}
		}
		if !ch {
			break
		}
	}
}

func fxLeanStr(s string) string {
	var sb strings.Builder
	sb.WriteByte('"')
	for _, r := range s {
		switch r {
		case '"':
			sb.WriteString("\\\"")
		case '\\':
			sb.WriteString("\\\\")
		case '\n':
			sb.WriteString("\\n")
		case '\t':
			sb.WriteString("\\t")
		default:
			if r < 32 || r > 126 {
				fmt.Fprintf(&sb, "\\u{%x}", r)
			} else {
				sb.WriteRune(r)
			}
		}
	}
	sb.WriteByte('"')
	return sb.String()
}

func fxVarKind(t types.Type) string {
	q := fxQual(t)
	switch {
	case q == "math/big.Int":
		return "bigInt"
	case strings.HasSuffix(q, "/bec.fieldVal"):
		return "fieldVal"
	case q == "sync.Once":
		return "once"
	case q == "regexp.Regexp":
		return "regexp"
	}
	if t.String() == "error" {
		return "error"
	}
	switch u := t.Underlying().(type) {
	case *types.Slice:
		return "slice"
	case *types.Map:
		return "map"
	case *types.Array:
		return "array"
	case *types.Struct:
		return "struct"
	case *types.Basic:
		if u.Info()&types.IsString != 0 {
			return "string"
		}
	}
	return "other"
}

type fxIndex struct {
	names []string
	idx   map[string]int
}

func (x *fxIndex) get(s string) int {
	if x.idx == nil {
		x.idx = map[string]int{}
	}
	if i, ok := x.idx[s]; ok {
		return i
	}
	x.idx[s] = len(x.names)
	x.names = append(x.names, s)
	return len(x.names) - 1
}

func genFacts() {
	fset := token.NewFileSet()
	ld := &fxLoader{fset: fset, repo: *repo, mod: fxModulePath(*repo), done: map[string]*types.Package{}, own: map[string]*fxPkg{}}
	ld.std = importer.ForCompiler(fset, "source", nil).(types.ImporterFrom)
	a := &fxAnalysis{ld: ld}
	for _, p := range fxPkgs {
		path := ld.mod + "/" + p
		if fp, ok := ld.own[path]; ok {
			a.pkgs = append(a.pkgs, fp)
			continue
		}
		a.pkgs = append(a.pkgs, ld.check(path, filepath.Join(ld.repo, p)))
	}
	a.setup()

	// global fixpoint over the summaries (written parameters, result aliases)
	for round := 0; ; round++ {
		if round > 60 {
			die("facts: summaries do not converge")
		}
		a.changed = false
		for _, f := range a.funcs {
			f.resetLocals(a)
			a.seedParams(f)
			a.analyse(f)
		}
		if !a.changed {
			break
		}
	}
	a.contexts()
	// final emitting pass
	a.emit = true
	for _, f := range a.funcs {
		f.resetLocals(a)
		a.seedParams(f)
		a.analyse(f)
	}
	a.render()
}

// ---------------------------------------------------------------------------------------------
// read sites of once-initialised state

type fxDoCall struct {
	once string
	base string // text of the object the once belongs to ("k" for k.o), "" for package-level
	pos  token.Pos
	end  token.Pos
}

// topLevelDos: Do calls that are unconditional top-level statements of fn's body
func (a *fxAnalysis) topLevelDos(f *fxFunc) []fxDoCall {
	var r []fxDoCall
	if f.decl == nil || f.decl.Body == nil {
		return r
	}
	w := &fxWalker{a: a, f: f, in: f.pkg.info}
	for _, st := range f.decl.Body.List {
		es, ok := st.(*ast.ExprStmt)
		if !ok {
			continue
		}
		call, ok := es.X.(*ast.CallExpr)
		if !ok {
			continue
		}
		if id, ok := w.isOnceDo(call); ok {
			base := ""
			if sel, ok := ast.Unparen(call.Fun).(*ast.SelectorExpr); ok {
				if s2, ok := ast.Unparen(sel.X).(*ast.SelectorExpr); ok {
					if _, isPkg := f.pkg.info.ObjectOf(fxRootIdent(s2)).(*types.PkgName); !isPkg {
						base = a.text(s2.X)
					}
				}
			}
			r = append(r, fxDoCall{once: id, base: base, pos: call.Pos(), end: call.End()})
		}
	}
	return r
}

func (a *fxAnalysis) readSites(onceLocs map[string]bool) []fxRead {
	var out []fxRead
	for _, f := range a.funcs {
		var roots []ast.Node
		if f.decl != nil {
			roots = append(roots, f.decl.Body)
		} else {
			for _, file := range f.pkg.files {
				for _, d := range file.Decls {
					if gd, ok := d.(*ast.GenDecl); ok && gd.Tok == token.VAR {
						for _, sp := range gd.Specs {
							for _, v := range sp.(*ast.ValueSpec).Values {
								roots = append(roots, v)
							}
						}
					}
				}
			}
		}
		dos := a.topLevelDos(f)
		w := &fxWalker{a: a, f: f, in: f.pkg.info}
		for _, root := range roots {
			var stack []ast.Node
			var regions []string
			ast.Inspect(root, func(x ast.Node) bool {
				if x == nil {
					top := stack[len(stack)-1]
					stack = stack[:len(stack)-1]
					if _, ok := top.(*ast.FuncLit); ok {
						regions = regions[:len(regions)-1]
					}
					return true
				}
				stack = append(stack, x)
				if fl, ok := x.(*ast.FuncLit); ok {
					regions = append(regions, a.onceLit[fl])
				}
				var key, base string
				var node ast.Node
				switch s := x.(type) {
				case *ast.Ident:
					v, ok := f.pkg.info.Uses[s].(*types.Var)
					if !ok {
						return true
					}
					if fxIsPkgLevel(v) && w.isOwnPkg(v.Pkg()) {
						key = w.pkgVarKey(v)
						node = s
					} else if v.IsField() {
						// field use: selector or composite-literal key
						if len(stack) >= 2 {
							switch par := stack[len(stack)-2].(type) {
							case *ast.SelectorExpr:
								if par.Sel == s {
									if sel := f.pkg.info.Selections[par]; sel != nil {
										if n := fxNamed(fxDeref(sel.Recv())); n != nil && n.Pkg() != nil {
											key = filepath.Base(n.Pkg().Path()) + "." + n.Name() + "." + s.Name
											base = a.text(par.X)
											node = par
										}
									}
								}
							case *ast.KeyValueExpr:
								if par.Key == ast.Expr(s) && len(stack) >= 3 {
									if cl, ok := stack[len(stack)-3].(*ast.CompositeLit); ok {
										if n := fxNamed(fxDeref(w.typeOf(cl))); n != nil && n.Pkg() != nil {
											key = filepath.Base(n.Pkg().Path()) + "." + n.Name() + "." + s.Name
											base = "<new>"
											node = par
										}
									}
								}
							}
						}
					}
				}
				if key == "" || !onceLocs[key] {
					return true
				}
				guard := "unguarded"
				region := ""
				for i := len(regions) - 1; i >= 0; i-- {
					if regions[i] != "" {
						region = regions[i]
						break
					}
				}
				switch {
				case base == "<new>":
					guard = "freshInit"
				case region != "":
					guard = "inOnce:" + strings.TrimPrefix(region, "once:")
				case strings.HasPrefix(f.ctx, "once:"):
					guard = "inOnce:" + strings.TrimPrefix(f.ctx, "once:")
				case f.ctx == "init":
					guard = "atInit"
				case f.ctx == "mutator":
					guard = "inMutator"
				default:
					for _, d := range dos {
						if d.end <= node.Pos() && d.base == base {
							guard = "afterDo:" + d.once
						}
					}
				}
				file, line := a.pos(node.Pos())
				out = append(out, fxRead{pkg: f.pkg.short, fn: f.name, file: file, line: line, expr: a.text(node), loc: key, guard: guard})
				return true
			})
		}
	}
	sort.SliceStable(out, func(i, j int) bool {
		if out[i].file != out[j].file {
			return out[i].file < out[j].file
		}
		return out[i].line < out[j].line
	})
	return out
}

// ---------------------------------------------------------------------------------------------
// rendering

func fxCtxLean(ctx string, onces *fxIndex) string {
	switch {
	case ctx == "init":
		return ".init"
	case ctx == "mutator":
		return ".mutator"
	case ctx == "local":
		return ".local"
	case strings.HasPrefix(ctx, "once:"):
		return fmt.Sprintf("(.onceBody %d)", onces.get(strings.TrimPrefix(ctx, "once:")))
	}
	return ".other"
}

func fxGuardLean(g string, onces *fxIndex) string {
	switch {
	case strings.HasPrefix(g, "inOnce:"):
		return fmt.Sprintf("(.inOnce %d)", onces.get(strings.TrimPrefix(g, "inOnce:")))
	case strings.HasPrefix(g, "afterDo:"):
		return fmt.Sprintf("(.afterDo %d)", onces.get(strings.TrimPrefix(g, "afterDo:")))
	case g == "atInit":
		return ".atInit"
	case g == "inMutator":
		return ".inMutator"
	case g == "freshInit":
		return ".freshInit"
	}
	return ".unguarded"
}

func (a *fxAnalysis) render() {
	var locs, onces fxIndex
	// stable ids for the state the theorem talks about
	locs.get(fxCurveKey)
	locs.get("bip32.ExtendedKey.pubKey")
	onces.get("bec.initonce")
	onces.get("bip32.ExtendedKey.o")

	sort.SliceStable(a.writes, func(i, j int) bool {
		x, y := a.writes[i], a.writes[j]
		if x.file != y.file {
			return x.file < y.file
		}
		if x.line != y.line {
			return x.line < y.line
		}
		if x.pos != y.pos {
			return x.pos < y.pos
		}
		if x.loc != y.loc {
			return x.loc < y.loc
		}
		return x.kind < y.kind
	})

	onceLocs := map[string]bool{fxCurveKey: true, "bip32.ExtendedKey.pubKey": true}
	for _, w := range a.writes {
		if strings.HasPrefix(w.ctx, "once:") {
			onceLocs[w.loc] = true
		}
	}
	reads := a.readSites(onceLocs)

	var sb strings.Builder
	sb.WriteString("-- REGENERATED by /verif/gen (facts.go) from the working tree of the repository — do not edit.\n")
	sb.WriteString("-- Shared-state facts for property C17: package-level variables, write sites to shared state with\n")
	sb.WriteString("-- their context, reads of once-initialised state, parameter write sets, and the decidable check\n")
	sb.WriteString("-- `disciplineOK`.  Numeric ids index `locNames` / `onceNames`; strings are documentation only and\n")
	sb.WriteString("-- never take part in `disciplineOK`.\n")
	sb.WriteString("namespace GoBk.Gen.Facts\n\n")
	sb.WriteString("inductive VarKind where\n  | bigInt | fieldVal | slice | map | array | struct | once | regexp | error | string | other\n  deriving DecidableEq, Repr\n\n")
	sb.WriteString("structure PkgVar where\n  pkg : String\n  name : String\n  kind : VarKind\n  isPointer : Bool\n  hasInit : Bool\n  /-- the initialiser is a composite literal / `new` / call, i.e. code that runs at package init -/\n  initRuns : Bool\n  deriving Repr\n\n")
	sb.WriteString("/-- where a write site sits -/\ninductive Ctx where\n  | init | onceBody (once : Nat) | mutator | local | other\n  deriving DecidableEq, Repr\n\n")
	sb.WriteString("inductive WKind where\n  | assign | incDec | opAssign | mutCall | passWritten | passUnknown | append\n  deriving DecidableEq, Repr\n\n")
	sb.WriteString("structure WriteSite where\n  pkg : String\n  fn : String\n  file : String\n  line : Nat\n  kind : WKind\n  target : String\n  /-- index into `locNames` -/\n  loc : Nat\n  ctx : Ctx\n  deriving Repr\n\n")
	sb.WriteString("inductive Guard where\n  | inOnce (once : Nat) | afterDo (once : Nat) | atInit | inMutator | freshInit | unguarded\n  deriving DecidableEq, Repr\n\n")
	sb.WriteString("structure ReadSite where\n  pkg : String\n  fn : String\n  file : String\n  line : Nat\n  expr : String\n  loc : Nat\n  guard : Guard\n  deriving Repr\n\n")
	sb.WriteString("structure ParamWrite where\n  fn : String\n  idx : Nat\n  param : String\n  exported : Bool\n  mutator : Bool\n  witness : String\n  deriving Repr\n\n")

	// variables
	sb.WriteString("def vars : List PkgVar := [\n")
	first := true
	for _, p := range a.pkgs {
		type vrec struct {
			name string
			line string
		}
		var vs []vrec
		for _, file := range p.files {
			for _, d := range file.Decls {
				gd, ok := d.(*ast.GenDecl)
				if !ok || gd.Tok != token.VAR {
					continue
				}
				for _, sp := range gd.Specs {
					spec := sp.(*ast.ValueSpec)
					for i, nm := range spec.Names {
						if nm.Name == "_" {
							continue
						}
						obj := p.info.Defs[nm]
						if obj == nil {
							continue
						}
						hasInit := len(spec.Values) > 0
						runs := false
						if hasInit {
							var e ast.Expr
							if len(spec.Values) == len(spec.Names) {
								e = spec.Values[i]
							} else {
								e = spec.Values[0]
							}
							switch x := ast.Unparen(e).(type) {
							case *ast.CompositeLit, *ast.CallExpr:
								runs = true
							case *ast.UnaryExpr:
								runs = x.Op == token.AND
							}
						}
						vs = append(vs, vrec{nm.Name, fmt.Sprintf("  { pkg := %s, name := %s, kind := .%s, isPointer := %v, hasInit := %v, initRuns := %v }",
							fxLeanStr(p.short), fxLeanStr(nm.Name), fxVarKind(fxDeref(obj.Type())), fxIsPtr(obj.Type()), hasInit, runs)})
					}
				}
			}
		}
		sort.Slice(vs, func(i, j int) bool { return vs[i].name < vs[j].name })
		for _, v := range vs {
			if !first {
				sb.WriteString(",\n")
			}
			first = false
			sb.WriteString(v.line)
		}
	}
	sb.WriteString("\n]\n\n")

	// write sites (ids are allocated while rendering, tables are printed afterwards)
	var wsb strings.Builder
	wsb.WriteString("def writeSites : List WriteSite := [\n")
	for i, w := range a.writes {
		if i > 0 {
			wsb.WriteString(",\n")
		}
		fmt.Fprintf(&wsb, "  { pkg := %s, fn := %s, file := %s, line := %d, kind := .%s, target := %s, loc := %d, ctx := %s }",
			fxLeanStr(w.pkg), fxLeanStr(w.fn), fxLeanStr(w.file), w.line, w.kind, fxLeanStr(w.target), locs.get(w.loc), fxCtxLean(w.ctx, &onces))
	}
	wsb.WriteString("\n]\n\n")
	var rsb strings.Builder
	rsb.WriteString("def readSites : List ReadSite := [\n")
	for i, r := range reads {
		if i > 0 {
			rsb.WriteString(",\n")
		}
		fmt.Fprintf(&rsb, "  { pkg := %s, fn := %s, file := %s, line := %d, expr := %s, loc := %d, guard := %s }",
			fxLeanStr(r.pkg), fxLeanStr(r.fn), fxLeanStr(r.file), r.line, fxLeanStr(r.expr), locs.get(r.loc), fxGuardLean(r.guard, &onces))
	}
	rsb.WriteString("\n]\n\n")

	fmt.Fprintf(&sb, "/-- shared-state location keys; `loc` fields index this list.  0 = the curve singleton, 1 = the memoised public key -/\ndef locNames : List String := [%s]\n\n", fxStrList(locs.names))
	fmt.Fprintf(&sb, "/-- sync.Once objects; 0 = bec.initonce, 1 = the per-key ExtendedKey.o -/\ndef onceNames : List String := [%s]\n\n", fxStrList(onces.names))
	var muts []string
	for k := range fxMutators {
		muts = append(muts, k)
	}
	sort.Strings(muts)
	fmt.Fprintf(&sb, "/-- the documented mutators, excluded from C17 by \"read-only API calls\" -/\ndef mutators : List String := [%s]\n\n", fxStrList(muts))
	sb.WriteString(wsb.String())
	sb.WriteString(rsb.String())

	// parameter write sets
	sb.WriteString("/-- pointer parameters (receiver = index 0 for methods) that a function may write, by fixpoint -/\ndef paramWrites : List ParamWrite := [\n")
	first = true
	nExportedPW := 0
	for _, f := range a.funcs {
		if len(f.written) == 0 {
			continue
		}
		var idx []int
		for i := range f.written {
			idx = append(idx, i)
		}
		sort.Ints(idx)
		for _, i := range idx {
			pn := "?"
			if i < len(f.params) {
				pn = f.params[i].Name()
			}
			exported := f.obj != nil && f.obj.Exported()
			if exported && f.decl != nil && f.decl.Recv != nil {
				// a method is reachable from outside only if its receiver type is exported
				if n := fxNamed(fxDeref(f.params[0].Type())); n != nil && !n.Exported() {
					exported = false
				}
			}
			if exported && f.ctx != "mutator" {
				nExportedPW++
			}
			if !first {
				sb.WriteString(",\n")
			}
			first = false
			fmt.Fprintf(&sb, "  { fn := %s, idx := %d, param := %s, exported := %v, mutator := %v, witness := %s }",
				fxLeanStr(f.name), i, fxLeanStr(pn), exported, f.ctx == "mutator", fxLeanStr(f.written[i]))
		}
	}
	sb.WriteString("\n]\n\n")

	// fieldVal method classification, derived (not assumed)
	var mut, ro []string
	for _, f := range a.funcs {
		if strings.HasPrefix(f.name, "bec.fieldVal.") {
			if _, ok := f.written[0]; ok {
				mut = append(mut, strings.TrimPrefix(f.name, "bec.fieldVal."))
			} else {
				ro = append(ro, strings.TrimPrefix(f.name, "bec.fieldVal."))
			}
		}
	}
	sort.Strings(mut)
	sort.Strings(ro)
	fmt.Fprintf(&sb, "/-- fieldVal methods found to write their receiver -/\ndef fieldValMutating : List String := [%s]\n\n", fxStrList(mut))
	fmt.Fprintf(&sb, "/-- fieldVal methods found NOT to write their receiver -/\ndef fieldValReadOnly : List String := [%s]\n\n", fxStrList(ro))

	// functions and their contexts (only the non-plain ones)
	sb.WriteString("/-- functions whose every execution is in a special context (init / once body / mutator) -/\ndef funcContexts : List (String × Ctx) := [\n")
	first = true
	for _, f := range a.funcs {
		if f.ctx == "plain" {
			continue
		}
		if !first {
			sb.WriteString(",\n")
		}
		first = false
		fmt.Fprintf(&sb, "  (%s, %s)", fxLeanStr(f.name), fxCtxLean(f.ctx, &onces))
	}
	sb.WriteString("\n]\n\n")

	// lazily initialised caches: struct fields written inside the Do of a once of the same struct
	sb.WriteString("/-- (location, once): state whose every write is inside the body of that once -/\ndef lazyState : List (Nat × Nat) := [")
	seen := map[string]bool{}
	var ls []string
	for _, w := range a.writes {
		if strings.HasPrefix(w.ctx, "once:") {
			k := fmt.Sprintf("(%d, %d)", locs.get(w.loc), onces.get(strings.TrimPrefix(w.ctx, "once:")))
			if !seen[k] {
				seen[k] = true
				ls = append(ls, k)
			}
		}
	}
	sb.WriteString(strings.Join(ls, ", "))
	sb.WriteString("]\n\n")

	// external calls that received shared pointers and are not in the extractor's tables
	sb.WriteString("/-- external callees that receive a pointer to shared state and are unknown to the extractor -/\ndef unknownExternalCalls : List (String × String × Nat) := [")
	var es []string
	seen = map[string]bool{}
	for _, e := range a.exts {
		k := fmt.Sprintf("(%s, %s, %d)", fxLeanStr(e.callee), fxLeanStr(e.fn), e.line)
		if !seen[k] {
			seen[k] = true
			es = append(es, k)
		}
	}
	sb.WriteString(strings.Join(es, ", "))
	sb.WriteString("]\n\n")

	sort.Strings(a.gos)
	fmt.Fprintf(&sb, "/-- `go` statements inside the library (the model's threads are the API callers only) -/\ndef goStatements : List String := [%s]\n\n", fxStrList(a.gos))

	sb.WriteString(`def Ctx.isOther : Ctx → Bool
  | .other => true
  | _ => false

/-- contexts in which writing shared state is part of the discipline -/
def Ctx.allowed : Ctx → Bool
  | .init => true
  | .onceBody _ => true
  | .mutator => true
  | .local => true
  | .other => false

/-- contexts that are ordered before / excluded from the concurrent phase (not merely "local") -/
def Ctx.synchronised : Ctx → Bool
  | .init => true
  | .onceBody _ => true
  | .mutator => true
  | _ => false

/-- a read of state initialised under once ` + "`o`" + ` is fine if it is inside the body, after the same
function's own Do(o), at package init, in a documented mutator, or initialises a fresh object -/
def Guard.okFor (o : Nat) : Guard → Bool
  | .inOnce o' => o' == o
  | .afterDo o' => o' == o
  | .atInit => true
  | .inMutator => true
  | .freshInit => true
  | .unguarded => false

def WKind.isPass : WKind → Bool
  | .passWritten => true
  | .passUnknown => true
  | .append => true
  | _ => false

def WKind.isMutCall : WKind → Bool
  | .mutCall => true
  | _ => false

/-- no write site has context ` + "`other`" + ` -/
def noOtherWrites : Bool := writeSites.all fun w => w.ctx.allowed

/-- every write inside a once body is to state that is read only after the matching Do -/
def onceReadsGuarded : Bool :=
  writeSites.all fun w =>
    match w.ctx with
    | .onceBody o => readSites.all fun r => r.loc != w.loc || r.guard.okFor o
    | _ => true

/-- no shared pointer is passed in a written parameter position outside init / once body / mutator -/
def noSharedPointerPassed : Bool :=
  writeSites.all fun w => !w.kind.isPass || w.ctx.synchronised

/-- no mutating method has a shared receiver outside init / once body / mutator -/
def noSharedMutatingReceiver : Bool :=
  writeSites.all fun w => !w.kind.isMutCall || w.ctx.synchronised

/-- every read of once-initialised state is guarded by some once (no unguarded read at all) -/
def noUnguardedReads : Bool := readSites.all fun r => r.guard != .unguarded

/-- pointer parameters written by exported functions other than the documented mutators -/
def exportedParamWrites : List ParamWrite := paramWrites.filter fun p => p.exported && !p.mutator

/-- no exported read-only API function writes through a pointer parameter the caller may share -/
def noExportedParamWrites : Bool := exportedParamWrites.isEmpty

/-- the library starts no goroutines of its own -/
def noGoStatements : Bool := goStatements.isEmpty

def disciplineOK : Bool :=
  noOtherWrites && onceReadsGuarded && noSharedPointerPassed && noSharedMutatingReceiver &&
    noUnguardedReads && noExportedParamWrites && noGoStatements

end GoBk.Gen.Facts
`)
	write("Facts.lean", sb.String())
	nOther := 0
	for _, w := range a.writes {
		if w.ctx == "other" {
			nOther++
			fmt.Fprintf(os.Stderr, "gobkgen: facts: write site with context other: %s:%d %s (%s) in %s\n", w.file, w.line, w.target, w.loc, w.fn)
		}
	}
	for _, r := range reads {
		if r.guard == "unguarded" {
			fmt.Fprintf(os.Stderr, "gobkgen: facts: unguarded read of once-initialised state: %s:%d %s in %s\n", r.file, r.line, r.expr, r.fn)
		}
	}
	fmt.Fprintf(os.Stderr, "gobkgen: facts: %d write sites (%d other), %d read sites, %d exported param writes\n", len(a.writes), nOther, len(reads), nExportedPW)
}

func fxStrList(xs []string) string {
	q := make([]string, len(xs))
	for i, x := range xs {
		q[i] = fxLeanStr(x)
	}
	return strings.Join(q, ", ")
}
