// curveir.go: regenerates
//
//	Gen/CurveIR.lean  the point-arithmetic formulas of bec/btcec.go (and the field part of
//	                  decompressPoint in bec/pubkey.go) as DATA of the deep embedding GoBk.IR
//	Gen/Table.lean    the pre-computed byte-point table of bec/secp256k1.go, decoded as
//	                  loadS256BytePoints (bec/precompute.go) does
//
// The accepted Go subset is described in the header of the generated file.  Everything else in
// the translated function bodies stops the generator with `untranslatable: <file:line>: <what>`.
package main

import (
	"bytes"
	"compress/zlib"
	"encoding/base64"
	"encoding/binary"
	"fmt"
	"go/ast"
	"go/parser"
	"go/printer"
	"go/token"
	"io"
	"os"
	"path/filepath"
	"strconv"
	"strings"
)

// ---------------------------------------------------------------------------------------------
// what is translated

// fnSpec names one Go function and the part of its body that is field arithmetic.
type fnSpec struct {
	file string // relative to the repository root
	name string // Go name
	lean string // name of the Lean definitions (fn_<lean>, <lean>)
	// prologue: leading statements (exact source text) that are NOT translated (big.Int glue);
	// they define the names in proParams, which become the first parameters of the Fn.
	prologue  []string
	proParams []string
	proKind   cellKind
	// epilogue: trailing statements (exact source text) that are NOT translated (conversion of
	// the results back to big.Int); they are replaced by `ret`.
	epilogue []string
	// errExits: `if c { return nil, fmt.Errorf("…") }` is an error exit, recorded in a fresh flag.
	errExits bool
	// boolResult: `return <cond>` stores the condition in a fresh flag named "return".
	boolResult bool
}

var curveSpecs = []fnSpec{
	{file: "bec/btcec.go", name: "addZ1AndZ2EqualsOne"},
	{file: "bec/btcec.go", name: "addZ1EqualsZ2"},
	{file: "bec/btcec.go", name: "addZ2EqualsOne"},
	{file: "bec/btcec.go", name: "addGeneric"},
	{file: "bec/btcec.go", name: "addJacobian"},
	{file: "bec/btcec.go", name: "doubleZ1EqualsOne"},
	{file: "bec/btcec.go", name: "doubleGeneric"},
	{file: "bec/btcec.go", name: "doubleJacobian"},
	{file: "bec/btcec.go", name: "fieldJacobianToBigAffine",
		epilogue: []string{
			"x3, y3 := new(big.Int), new(big.Int)",
			"x3.SetBytes(x.Bytes()[:])",
			"y3.SetBytes(y.Bytes()[:])",
			"return x3, y3",
		}},
	{file: "bec/btcec.go", name: "IsOnCurve", lean: "isOnCurve",
		prologue:  []string{"fx, fy := curve.bigAffineToField(x, y)"},
		proParams: []string{"fx", "fy"}, proKind: kindPtr,
		boolResult: true},
	{file: "bec/pubkey.go", name: "decompressPoint",
		prologue:  []string{"var x fieldVal", "x.SetByteSlice(bigX.Bytes())"},
		proParams: []string{"x"}, proKind: kindVal,
		epilogue: []string{"return new(big.Int).SetBytes(y.Bytes()[:]), nil"},
		errExits: true},
}

// the fieldVal methods the IR has an Op for: argument kinds ('c' = *fieldVal, 'k' = integer)
// and the Lean constructor.
type methodSpec struct {
	args string
	ctor string
}

var opMethods = map[string]methodSpec{
	"Set":       {"c", ".set"},
	"SetInt":    {"k", ".setInt"},
	"Add":       {"c", ".add"},
	"Add2":      {"cc", ".add2"},
	"AddInt":    {"k", ".addInt"},
	"Negate":    {"k", ".negate"},
	"NegateVal": {"ck", ".negateVal"},
	"MulInt":    {"k", ".mulInt"},
	"Mul":       {"c", ".mul"},
	"Mul2":      {"cc", ".mul2"},
	"Square":    {"", ".square"},
	"SquareVal": {"c", ".squareVal"},
	"Normalise": {"", ".normalise"},
	"Inverse":   {"", ".inverse"},
	"SqrtVal":   {"c", ".sqrtVal"},
}

var condMethods = map[string]methodSpec{
	"IsZero": {"", ".isZero"},
	"IsOdd":  {"", ".isOdd"},
	"Equals": {"c", ".equals"},
}

// ---------------------------------------------------------------------------------------------
// the IR as the generator holds it

type cellKind int

const (
	kindPtr cellKind = iota // the Go name is a *fieldVal: used bare
	kindVal                 // the Go name is a fieldVal variable: used as &name (or as a receiver)
)

type irStmt struct {
	lean    string   // an atomic statement, e.g. ".op (.param 0) .normalise"
	isIte   bool     // otherwise: ite cond t e
	cond    string
	t, e    []*irStmt
	comment string // Go source position and text, printed above the statement
}

type nameInfo struct {
	cell string // Lean Cell term, e.g. ".param 3"
	kind cellKind
}

type fnCtx struct {
	spec       fnSpec
	fset       *token.FileSet
	recvName   string // name of the *KoblitzCurve receiver / parameter ("" if none)
	names      map[string]nameInfo
	paramNames []string
	localNames []string
	flags      map[string]int
	flagNames  []string
	line       int // line of the decl
	body       []*irStmt
	calls      []string // callee Go names
	pendingCmt string
}

type curveGen struct {
	fns   []*fnCtx
	index map[string]int // Go name -> index in prog
	decls map[string]*ast.FuncDecl
	fsets map[string]*token.FileSet
}

func (c *fnCtx) untranslatable(pos token.Pos, f string, a ...interface{}) {
	p := c.fset.Position(pos)
	fmt.Fprintf(os.Stderr, "gobkgen: untranslatable: %s:%d: %s\n", c.spec.file, p.Line, fmt.Sprintf(f, a...))
	os.Exit(3)
}

func (c *fnCtx) src(n ast.Node) string {
	var sb strings.Builder
	_ = printer.Fprint(&sb, c.fset, n)
	return strings.Join(strings.Fields(sb.String()), " ")
}

func normText(s string) string { return strings.Join(strings.Fields(s), " ") }

func isFieldValType(e ast.Expr) bool {
	id, ok := e.(*ast.Ident)
	return ok && id.Name == "fieldVal"
}
func isFieldValPtr(e ast.Expr) bool {
	st, ok := e.(*ast.StarExpr)
	return ok && isFieldValType(st.X)
}
func isCurvePtr(e ast.Expr) bool {
	st, ok := e.(*ast.StarExpr)
	if !ok {
		return false
	}
	id, ok := st.X.(*ast.Ident)
	return ok && id.Name == "KoblitzCurve"
}

// ---------------------------------------------------------------------------------------------
// checks on bec/field.go: every method the IR gives an Op has the expected signature and returns
// its receiver (so that a chain a.M().N() keeps operating on a)

func checkFieldMethods() {
	fset, f := parseFile("bec/field.go")
	found := map[string]bool{}
	bad := func(pos token.Pos, f string, a ...interface{}) {
		fmt.Fprintf(os.Stderr, "gobkgen: untranslatable: bec/field.go:%d: %s\n", fset.Position(pos).Line, fmt.Sprintf(f, a...))
		os.Exit(3)
	}
	for _, d := range f.Decls {
		fd, ok := d.(*ast.FuncDecl)
		if !ok || fd.Recv == nil || len(fd.Recv.List) != 1 {
			continue
		}
		ms, isOp := opMethods[fd.Name.Name]
		cs, isCond := condMethods[fd.Name.Name]
		if !isOp && !isCond {
			continue
		}
		if !isFieldValPtr(fd.Recv.List[0].Type) || len(fd.Recv.List[0].Names) != 1 {
			bad(fd.Pos(), "method %s: receiver is not a named *fieldVal", fd.Name.Name)
		}
		recv := fd.Recv.List[0].Names[0].Name
		want := ms.args
		if isCond {
			want = cs.args
		}
		got := ""
		for _, p := range fd.Type.Params.List {
			k := "?"
			if isFieldValPtr(p.Type) {
				k = "c"
			} else if id, ok := p.Type.(*ast.Ident); ok && (id.Name == "uint" || id.Name == "uint32") {
				k = "k"
			}
			got += strings.Repeat(k, len(p.Names))
		}
		if got != want {
			bad(fd.Pos(), "method %s: parameter kinds %q, the IR expects %q", fd.Name.Name, got, want)
		}
		res := fd.Type.Results
		if isCond {
			if res == nil || len(res.List) != 1 || len(res.List[0].Names) > 1 {
				bad(fd.Pos(), "method %s: result is not a single bool", fd.Name.Name)
			}
			if id, ok := res.List[0].Type.(*ast.Ident); !ok || id.Name != "bool" {
				bad(fd.Pos(), "method %s: result is not a single bool", fd.Name.Name)
			}
		} else {
			if res == nil || len(res.List) != 1 || len(res.List[0].Names) != 0 || !isFieldValPtr(res.List[0].Type) {
				bad(fd.Pos(), "method %s: result is not a single *fieldVal", fd.Name.Name)
			}
			// every return statement returns the receiver, directly or through another such method
			nret := 0
			ast.Inspect(fd.Body, func(n ast.Node) bool {
				if _, ok := n.(*ast.FuncLit); ok {
					bad(n.Pos(), "method %s: function literal", fd.Name.Name)
				}
				rs, ok := n.(*ast.ReturnStmt)
				if !ok {
					return true
				}
				nret++
				if len(rs.Results) != 1 {
					bad(rs.Pos(), "method %s: return without the receiver", fd.Name.Name)
				}
				switch r := rs.Results[0].(type) {
				case *ast.Ident:
					if r.Name != recv {
						bad(rs.Pos(), "method %s: returns %s, not its receiver", fd.Name.Name, r.Name)
					}
				case *ast.CallExpr:
					sel, ok := r.Fun.(*ast.SelectorExpr)
					if !ok {
						bad(rs.Pos(), "method %s: returns a call that is not a method of the receiver", fd.Name.Name)
					}
					x, ok := sel.X.(*ast.Ident)
					if !ok || x.Name != recv {
						bad(rs.Pos(), "method %s: returns a call that is not a method of the receiver", fd.Name.Name)
					}
					if _, ok := opMethods[sel.Sel.Name]; !ok {
						bad(rs.Pos(), "method %s: returns %s.%s(…), which is not known to return the receiver", fd.Name.Name, recv, sel.Sel.Name)
					}
				default:
					bad(rs.Pos(), "method %s: return value is not the receiver", fd.Name.Name)
				}
				return true
			})
			if nret == 0 {
				bad(fd.Pos(), "method %s: no return statement", fd.Name.Name)
			}
		}
		found[fd.Name.Name] = true
	}
	for m := range opMethods {
		if !found[m] {
			die("untranslatable: bec/field.go: method %s not found", m)
		}
	}
	for m := range condMethods {
		if !found[m] {
			die("untranslatable: bec/field.go: method %s not found", m)
		}
	}
	// the package-level fieldOne must be new(fieldVal).SetInt(1)
	ok := false
	_, bf := parseFile("bec/btcec.go")
	ast.Inspect(bf, func(n ast.Node) bool {
		vs, isVS := n.(*ast.ValueSpec)
		if !isVS || len(vs.Names) != 1 || vs.Names[0].Name != "fieldOne" || len(vs.Values) != 1 {
			return true
		}
		var sb strings.Builder
		_ = printer.Fprint(&sb, token.NewFileSet(), vs.Values[0])
		if normText(sb.String()) == "new(fieldVal).SetInt(1)" {
			ok = true
		}
		return false
	})
	if !ok {
		die("untranslatable: bec/btcec.go: fieldOne is not `new(fieldVal).SetInt(1)`")
	}
}

// ---------------------------------------------------------------------------------------------
// translation of one function

func (c *fnCtx) addParam(name string, kind cellKind, pos token.Pos) {
	if _, dup := c.names[name]; dup {
		c.untranslatable(pos, "name %s declared twice", name)
	}
	c.names[name] = nameInfo{fmt.Sprintf(".param %d", len(c.paramNames)), kind}
	c.paramNames = append(c.paramNames, name)
}

func (c *fnCtx) addLocal(name string, kind cellKind, pos token.Pos) string {
	if name != "" {
		if _, dup := c.names[name]; dup {
			c.untranslatable(pos, "name %s declared twice (shadowing is not translated)", name)
		}
		if _, dup := c.flags[name]; dup {
			c.untranslatable(pos, "name %s declared twice (shadowing is not translated)", name)
		}
	}
	cell := fmt.Sprintf(".loc %d", len(c.localNames))
	shown := name
	if name == "" {
		shown = fmt.Sprintf("<new(fieldVal) at line %d>", c.fset.Position(pos).Line)
	} else {
		c.names[name] = nameInfo{cell, kind}
	}
	c.localNames = append(c.localNames, shown)
	return cell
}

func (c *fnCtx) addFlag(name string, pos token.Pos) int {
	if _, dup := c.flags[name]; dup {
		c.untranslatable(pos, "name %s declared twice", name)
	}
	if _, dup := c.names[name]; dup {
		c.untranslatable(pos, "name %s declared twice", name)
	}
	i := len(c.flagNames)
	c.flags[name] = i
	c.flagNames = append(c.flagNames, name)
	return i
}

// emit appends an atomic statement to the block under construction
func (c *fnCtx) emit(blk *[]*irStmt, lean string) {
	*blk = append(*blk, &irStmt{lean: lean, comment: c.pendingCmt})
	c.pendingCmt = ""
}

func paren(s string) string {
	if strings.ContainsAny(s, " ") {
		return "(" + s + ")"
	}
	return s
}

func isNewFieldVal(e ast.Expr) bool {
	call, ok := e.(*ast.CallExpr)
	if !ok || len(call.Args) != 1 {
		return false
	}
	id, ok := call.Fun.(*ast.Ident)
	return ok && id.Name == "new" && isFieldValType(call.Args[0])
}

// cellExpr evaluates an expression denoting a *fieldVal, emitting the mutating calls it contains
// in Go's evaluation order, and returns the Lean Cell term.  asRecv: the expression stands in
// receiver position (a fieldVal VARIABLE is then addressed implicitly).
func (c *fnCtx) cellExpr(blk *[]*irStmt, e ast.Expr, asRecv bool) string {
	switch x := e.(type) {
	case *ast.ParenExpr:
		return c.cellExpr(blk, x.X, asRecv)
	case *ast.Ident:
		if ni, ok := c.names[x.Name]; ok {
			if ni.kind == kindVal && !asRecv {
				c.untranslatable(x.Pos(), "fieldVal variable %s used as a value (expected &%s)", x.Name, x.Name)
			}
			return ni.cell
		}
		if x.Name == "fieldOne" {
			return ".fieldOne"
		}
		c.untranslatable(x.Pos(), "unknown name %s where a *fieldVal is expected", x.Name)
	case *ast.UnaryExpr:
		if x.Op == token.AND {
			if id, ok := x.X.(*ast.Ident); ok {
				if ni, ok := c.names[id.Name]; ok && ni.kind == kindVal {
					return ni.cell
				}
			}
		}
		c.untranslatable(x.Pos(), "expression %s where a *fieldVal is expected", c.src(x))
	case *ast.SelectorExpr:
		if id, ok := x.X.(*ast.Ident); ok && c.recvName != "" && id.Name == c.recvName {
			switch x.Sel.Name {
			case "fieldB":
				return ".fieldB"
			case "beta":
				return ".beta"
			}
		}
		c.untranslatable(x.Pos(), "selector %s where a *fieldVal is expected", c.src(x))
	case *ast.CallExpr:
		if isNewFieldVal(x) {
			return c.addLocal("", kindPtr, x.Pos())
		}
		sel, ok := x.Fun.(*ast.SelectorExpr)
		if !ok {
			c.untranslatable(x.Pos(), "call %s where a *fieldVal is expected", c.src(x))
		}
		ms, ok := opMethods[sel.Sel.Name]
		if !ok {
			c.untranslatable(x.Pos(), "unknown method %s in %s", sel.Sel.Name, c.src(x))
		}
		// Go: the receiver operand (and every call inside it) first, then the arguments left to
		// right (and every call inside them), then the call itself
		dst := c.cellExpr(blk, sel.X, true)
		if dst == ".fieldOne" || dst == ".fieldB" || dst == ".beta" {
			c.untranslatable(x.Pos(), "mutating method %s on the constant %s", sel.Sel.Name, c.src(sel.X))
		}
		if len(x.Args) != len(ms.args) || x.Ellipsis != token.NoPos {
			c.untranslatable(x.Pos(), "method %s called with %d arguments", sel.Sel.Name, len(x.Args))
		}
		op := ms.ctor
		for i, a := range x.Args {
			switch ms.args[i] {
			case 'c':
				src := c.cellExpr(blk, a, false)
				if sel.Sel.Name == "SqrtVal" {
					// SqrtVal reads its argument after writing the receiver: only distinct local
					// variables are certainly distinct memory
					if src == dst || !strings.HasPrefix(src, ".loc ") || !strings.HasPrefix(dst, ".loc ") {
						c.untranslatable(x.Pos(), "SqrtVal whose receiver and argument are not two distinct local variables")
					}
				}
				op += " " + paren(src)
			case 'k':
				op += " " + c.intLit(a)
			}
		}
		c.emit(blk, fmt.Sprintf(".op %s %s", paren(dst), paren(op)))
		return dst
	}
	c.untranslatable(e.Pos(), "expression %s where a *fieldVal is expected", c.src(e))
	return ""
}

func (c *fnCtx) intLit(e ast.Expr) string {
	bl, ok := e.(*ast.BasicLit)
	if !ok || bl.Kind != token.INT {
		c.untranslatable(e.Pos(), "non-literal integer argument %s", c.src(e))
	}
	v, err := strconv.ParseUint(bl.Value, 0, 32)
	if err != nil {
		c.untranslatable(e.Pos(), "integer literal %s out of range", bl.Value)
	}
	return strconv.FormatUint(v, 10)
}

// condExpr evaluates a bool expression: mutating calls inside it are emitted first (only where Go
// evaluates them unconditionally), the result is the pure Lean Cond term.
func (c *fnCtx) condExpr(blk *[]*irStmt, e ast.Expr) string {
	switch x := e.(type) {
	case *ast.ParenExpr:
		return c.condExpr(blk, x.X)
	case *ast.Ident:
		if i, ok := c.flags[x.Name]; ok {
			return fmt.Sprintf(".flag %d", i)
		}
		c.untranslatable(x.Pos(), "unknown name %s in a condition", x.Name)
	case *ast.UnaryExpr:
		if x.Op == token.NOT {
			return ".not " + paren(c.condExpr(blk, x.X))
		}
		c.untranslatable(x.Pos(), "operator %s in a condition", x.Op)
	case *ast.BinaryExpr:
		switch x.Op {
		case token.LAND, token.LOR:
			a := c.condExpr(blk, x.X)
			n := len(*blk)
			b := c.condExpr(blk, x.Y)
			if len(*blk) != n {
				c.untranslatable(x.Y.Pos(), "mutating call in the right operand of %s (evaluated conditionally)", x.Op)
			}
			ctor := ".and"
			if x.Op == token.LOR {
				ctor = ".or"
			}
			return fmt.Sprintf("%s %s %s", ctor, paren(a), paren(b))
		case token.NEQ, token.EQL:
			// both operands are bools and are always evaluated, left first
			a := c.condExpr(blk, x.X)
			b := c.condExpr(blk, x.Y)
			if x.Op == token.NEQ {
				return fmt.Sprintf(".or (.and %s (.not %s)) (.and (.not %s) %s)", paren(a), paren(b), paren(a), paren(b))
			}
			return fmt.Sprintf(".or (.and %s %s) (.and (.not %s) (.not %s))", paren(a), paren(b), paren(a), paren(b))
		}
		c.untranslatable(x.Pos(), "operator %s in a condition", x.Op)
	case *ast.CallExpr:
		sel, ok := x.Fun.(*ast.SelectorExpr)
		if !ok {
			c.untranslatable(x.Pos(), "call %s in a condition", c.src(x))
		}
		ms, ok := condMethods[sel.Sel.Name]
		if !ok {
			c.untranslatable(x.Pos(), "unknown method %s in the condition %s", sel.Sel.Name, c.src(x))
		}
		recv := c.cellExpr(blk, sel.X, true)
		if len(x.Args) != len(ms.args) {
			c.untranslatable(x.Pos(), "method %s called with %d arguments", sel.Sel.Name, len(x.Args))
		}
		out := ms.ctor + " " + paren(recv)
		for _, a := range x.Args {
			out += " " + paren(c.cellExpr(blk, a, false))
		}
		return out
	}
	c.untranslatable(e.Pos(), "expression %s in a condition", c.src(e))
	return ""
}

func (c *fnCtx) comment(n ast.Node) {
	text := c.src(n)
	if i := strings.Index(text, "{"); i >= 0 {
		if _, isIf := n.(*ast.IfStmt); isIf {
			text = text[:i+1] + " …"
		}
		if _, isSw := n.(*ast.SwitchStmt); isSw {
			text = text[:i+1] + " …"
		}
	}
	text = strings.ReplaceAll(text, "-/", "- /")
	c.pendingCmt = fmt.Sprintf("%s:%d: %s", c.spec.file, c.fset.Position(n.Pos()).Line, text)
}

func (c *fnCtx) block(blk *[]*irStmt, stmts []ast.Stmt) {
	for _, s := range stmts {
		c.stmt(blk, s)
	}
}

func isErrorExit(c *fnCtx, s ast.Stmt) bool {
	rs, ok := s.(*ast.ReturnStmt)
	if !ok || len(rs.Results) != 2 {
		return false
	}
	if id, ok := rs.Results[0].(*ast.Ident); !ok || id.Name != "nil" {
		return false
	}
	call, ok := rs.Results[1].(*ast.CallExpr)
	if !ok || len(call.Args) != 1 {
		return false
	}
	if c.src(call.Fun) != "fmt.Errorf" && c.src(call.Fun) != "errors.New" {
		return false
	}
	bl, ok := call.Args[0].(*ast.BasicLit)
	return ok && bl.Kind == token.STRING
}

func (c *fnCtx) stmt(blk *[]*irStmt, s ast.Stmt) {
	c.comment(s)
	switch x := s.(type) {
	case *ast.DeclStmt:
		gd, ok := x.Decl.(*ast.GenDecl)
		if !ok || gd.Tok != token.VAR {
			c.untranslatable(x.Pos(), "declaration %s", c.src(x))
		}
		for _, sp := range gd.Specs {
			vs := sp.(*ast.ValueSpec)
			if len(vs.Values) != 0 || !isFieldValType(vs.Type) {
				c.untranslatable(vs.Pos(), "declaration %s (only `var a, b fieldVal`)", c.src(x))
			}
			for _, n := range vs.Names {
				c.addLocal(n.Name, kindVal, n.Pos())
			}
		}
		c.pendingCmt = ""
	case *ast.ExprStmt:
		call, ok := x.X.(*ast.CallExpr)
		if !ok {
			c.untranslatable(x.Pos(), "statement %s", c.src(x))
		}
		if sel, ok := call.Fun.(*ast.SelectorExpr); ok {
			if id, ok := sel.X.(*ast.Ident); ok && c.recvName != "" && id.Name == c.recvName {
				c.call(blk, call, sel.Sel.Name)
				return
			}
		}
		n := len(*blk)
		c.cellExpr(blk, call, true)
		if len(*blk) == n {
			c.untranslatable(x.Pos(), "statement %s has no effect on a field value", c.src(x))
		}
	case *ast.AssignStmt:
		if x.Tok != token.DEFINE || len(x.Lhs) != 1 || len(x.Rhs) != 1 {
			c.untranslatable(x.Pos(), "assignment %s", c.src(x))
		}
		id, ok := x.Lhs[0].(*ast.Ident)
		if !ok || id.Name == "_" {
			c.untranslatable(x.Pos(), "assignment %s", c.src(x))
		}
		// name := new(fieldVal).M(…)…  — a named local holding the chain's receiver
		if root := chainRoot(x.Rhs[0]); root != nil && isNewFieldVal(root) {
			cell := c.addLocal(id.Name, kindPtr, id.Pos())
			c.chainOn(blk, x.Rhs[0], root, cell)
			return
		}
		// name := <condition>
		if isCondShape(x.Rhs[0]) {
			cond := c.condExpr(blk, x.Rhs[0])
			i := c.addFlag(id.Name, id.Pos())
			c.emit(blk, fmt.Sprintf(".setFlag %d %s", i, paren(cond)))
			return
		}
		c.untranslatable(x.Pos(), "assignment %s", c.src(x))
	case *ast.IfStmt:
		if x.Init != nil {
			c.untranslatable(x.Pos(), "if statement with an initialiser")
		}
		cmt := c.pendingCmt
		cond := c.condExpr(blk, x.Cond)
		c.pendingCmt = cmt
		st := &irStmt{isIte: true, cond: cond, comment: c.pendingCmt}
		c.pendingCmt = ""
		if c.spec.errExits && x.Else == nil && len(x.Body.List) == 1 && isErrorExit(c, x.Body.List[0]) {
			i := c.addFlag(fmt.Sprintf("<error exit at line %d: %s>", c.fset.Position(x.Body.List[0].Pos()).Line,
				c.src(x.Body.List[0].(*ast.ReturnStmt).Results[1].(*ast.CallExpr).Args[0])), x.Pos())
			c.comment(x.Body.List[0])
			c.emit(&st.t, fmt.Sprintf(".setFlag %d %s", i, paren(cond)))
			c.emit(&st.t, ".ret")
			*blk = append(*blk, st)
			return
		}
		c.block(&st.t, x.Body.List)
		switch el := x.Else.(type) {
		case nil:
		case *ast.BlockStmt:
			c.block(&st.e, el.List)
		case *ast.IfStmt:
			c.stmt(&st.e, el)
		default:
			c.untranslatable(x.Else.Pos(), "else branch %s", c.src(x.Else))
		}
		*blk = append(*blk, st)
	case *ast.SwitchStmt:
		if x.Init != nil || x.Tag != nil {
			c.untranslatable(x.Pos(), "switch with an initialiser or a tag")
		}
		c.pendingCmt = ""
		cur := blk
		for i, cl := range x.Body.List {
			cc := cl.(*ast.CaseClause)
			for _, b := range cc.Body {
				if br, ok := b.(*ast.BranchStmt); ok {
					c.untranslatable(br.Pos(), "%s in a switch", br.Tok)
				}
			}
			if cc.List == nil {
				if i != len(x.Body.List)-1 {
					c.untranslatable(cc.Pos(), "default clause that is not the last clause")
				}
				c.block(cur, cc.Body)
				break
			}
			if len(cc.List) != 1 {
				c.untranslatable(cc.Pos(), "case with several expressions")
			}
			c.pendingCmt = fmt.Sprintf("%s:%d: case %s:", c.spec.file, c.fset.Position(cc.Pos()).Line, c.src(cc.List[0]))
			cmt := c.pendingCmt
			cond := c.condExpr(cur, cc.List[0])
			st := &irStmt{isIte: true, cond: cond, comment: cmt}
			c.pendingCmt = ""
			c.block(&st.t, cc.Body)
			*cur = append(*cur, st)
			cur = &st.e
		}
	case *ast.ReturnStmt:
		switch {
		case len(x.Results) == 0:
			c.emit(blk, ".ret")
		case c.spec.boolResult && len(x.Results) == 1 && isCondShape(x.Results[0]):
			cmt := c.pendingCmt
			cond := c.condExpr(blk, x.Results[0])
			if _, ok := c.flags["return"]; !ok {
				c.addFlag("return", x.Pos())
			}
			c.pendingCmt = cmt
			c.emit(blk, fmt.Sprintf(".setFlag %d %s", c.flags["return"], paren(cond)))
			c.emit(blk, ".ret")
		default:
			c.untranslatable(x.Pos(), "return statement %s", c.src(x))
		}
	default:
		c.untranslatable(s.Pos(), "statement %s", c.src(s))
	}
}

// chainRoot: the innermost receiver of a method chain a.M(…).N(…) (nil if e is not a chain of
// method calls)
func chainRoot(e ast.Expr) ast.Expr {
	call, ok := e.(*ast.CallExpr)
	if !ok {
		return nil
	}
	if isNewFieldVal(call) {
		return call
	}
	sel, ok := call.Fun.(*ast.SelectorExpr)
	if !ok {
		return nil
	}
	if r := chainRoot(sel.X); r != nil {
		return r
	}
	return nil
}

// chainOn translates the chain e whose root `new(fieldVal)` is the already allocated cell
func (c *fnCtx) chainOn(blk *[]*irStmt, e ast.Expr, root ast.Expr, cell string) {
	tmp := fmt.Sprintf("«chain-root-%d»", len(c.localNames))
	c.names[tmp] = nameInfo{cell, kindPtr}
	rewritten := replaceNode(e, root, &ast.Ident{Name: tmp, NamePos: root.Pos()})
	n := len(*blk)
	c.cellExpr(blk, rewritten, true)
	delete(c.names, tmp)
	if len(*blk) == n {
		c.untranslatable(e.Pos(), "new(fieldVal) without a method call")
	}
}

// replaceNode returns e with the sub-expression old (a receiver position in a method chain)
// replaced by repl
func replaceNode(e ast.Expr, old ast.Expr, repl ast.Expr) ast.Expr {
	if e == old {
		return repl
	}
	call, ok := e.(*ast.CallExpr)
	if !ok {
		return e
	}
	sel, ok := call.Fun.(*ast.SelectorExpr)
	if !ok {
		return e
	}
	nsel := &ast.SelectorExpr{X: replaceNode(sel.X, old, repl), Sel: sel.Sel}
	return &ast.CallExpr{Fun: nsel, Lparen: call.Lparen, Args: call.Args, Ellipsis: call.Ellipsis, Rparen: call.Rparen}
}

// isCondShape: the expression is syntactically a bool expression of the accepted kind
func isCondShape(e ast.Expr) bool {
	switch x := e.(type) {
	case *ast.ParenExpr:
		return isCondShape(x.X)
	case *ast.UnaryExpr:
		return x.Op == token.NOT
	case *ast.BinaryExpr:
		return x.Op == token.LAND || x.Op == token.LOR || x.Op == token.NEQ || x.Op == token.EQL
	case *ast.CallExpr:
		if sel, ok := x.Fun.(*ast.SelectorExpr); ok {
			_, ok := condMethods[sel.Sel.Name]
			return ok
		}
	}
	return false
}

var theGen *curveGen

func (c *fnCtx) call(blk *[]*irStmt, call *ast.CallExpr, callee string) {
	idx, ok := theGen.index[callee]
	if !ok {
		c.untranslatable(call.Pos(), "call of %s.%s, which is not one of the translated functions", c.recvName, callee)
	}
	fd := theGen.decls[callee]
	np := 0
	for _, p := range fd.Type.Params.List {
		if !isFieldValPtr(p.Type) {
			c.untranslatable(call.Pos(), "callee %s has a parameter that is not a *fieldVal", callee)
		}
		np += len(p.Names)
	}
	if fd.Type.Results != nil && len(fd.Type.Results.List) != 0 {
		c.untranslatable(call.Pos(), "callee %s returns a value", callee)
	}
	if len(call.Args) != np || call.Ellipsis != token.NoPos {
		c.untranslatable(call.Pos(), "call of %s with %d arguments (it has %d parameters)", callee, len(call.Args), np)
	}
	var cells []string
	for _, a := range call.Args {
		cells = append(cells, c.cellExpr(blk, a, false))
	}
	_ = idx
	c.calls = append(c.calls, callee)
	c.emit(blk, fmt.Sprintf(".call fn_%s [%s]", theGen.leanName(callee), strings.Join(cells, ", ")))
}

func (g *curveGen) leanName(goName string) string {
	for _, s := range curveSpecs {
		if s.name == goName {
			if s.lean != "" {
				return s.lean
			}
			return s.name
		}
	}
	return goName
}

func translateFn(spec fnSpec, fset *token.FileSet, fd *ast.FuncDecl) *fnCtx {
	c := &fnCtx{spec: spec, fset: fset, names: map[string]nameInfo{}, flags: map[string]int{},
		line: fset.Position(fd.Pos()).Line}
	if fd.Recv != nil {
		if len(fd.Recv.List) != 1 || len(fd.Recv.List[0].Names) != 1 || !isCurvePtr(fd.Recv.List[0].Type) {
			c.untranslatable(fd.Pos(), "receiver of %s is not a named *KoblitzCurve", spec.name)
		}
		c.recvName = fd.Recv.List[0].Names[0].Name
	}
	// prologue names come first, then the *fieldVal parameters in declaration order
	for _, n := range spec.proParams {
		c.addParam(n, spec.proKind, fd.Pos())
	}
	for _, p := range fd.Type.Params.List {
		for _, n := range p.Names {
			switch {
			case isFieldValPtr(p.Type):
				c.addParam(n.Name, kindPtr, n.Pos())
			case isCurvePtr(p.Type):
				if c.recvName != "" {
					c.untranslatable(n.Pos(), "two curve parameters")
				}
				c.recvName = n.Name
			default:
				if id, ok := p.Type.(*ast.Ident); ok && id.Name == "bool" {
					c.addFlag(n.Name, n.Pos()) // an INPUT flag
				}
				// any other parameter is not a field value: a use of it is an unknown name
			}
		}
	}
	stmts := fd.Body.List
	if len(stmts) < len(spec.prologue)+len(spec.epilogue) {
		c.untranslatable(fd.Pos(), "body of %s is shorter than its expected prologue and epilogue", spec.name)
	}
	for i, want := range spec.prologue {
		if got := c.src(stmts[i]); got != normText(want) {
			c.untranslatable(stmts[i].Pos(), "prologue statement %d of %s is `%s`, expected `%s`", i+1, spec.name, got, want)
		}
	}
	stmts = stmts[len(spec.prologue):]
	tail := stmts[len(stmts)-len(spec.epilogue):]
	for i, want := range spec.epilogue {
		if got := c.src(tail[i]); got != normText(want) {
			c.untranslatable(tail[i].Pos(), "epilogue statement %d of %s is `%s`, expected `%s`", i+1, spec.name, got, want)
		}
	}
	stmts = stmts[:len(stmts)-len(spec.epilogue)]
	c.block(&c.body, stmts)
	if len(spec.epilogue) > 0 {
		c.pendingCmt = fmt.Sprintf("%s:%d: (conversion of the results to big.Int — not part of the IR)", spec.file, fset.Position(tail[0].Pos()).Line)
		c.emit(&c.body, ".ret")
	}
	return c
}

// ---------------------------------------------------------------------------------------------
// printing

func printBlock(sb *strings.Builder, blk []*irStmt, indent string) {
	for _, s := range blk {
		if s.comment != "" {
			fmt.Fprintf(sb, "%s-- %s\n", indent, s.comment)
		}
		if !s.isIte {
			fmt.Fprintf(sb, "%s.cons (%s) <|\n", indent, s.lean)
			continue
		}
		fmt.Fprintf(sb, "%s.cons (.ite %s\n", indent, paren(s.cond))
		printSub(sb, s.t, indent+"    ")
		printSub(sb, s.e, indent+"    ")
		fmt.Fprintf(sb, "%s  ) <|\n", indent)
	}
	fmt.Fprintf(sb, "%s.nil\n", indent)
}

func printSub(sb *strings.Builder, blk []*irStmt, indent string) {
	if len(blk) == 0 {
		fmt.Fprintf(sb, "%s.nil\n", indent)
		return
	}
	fmt.Fprintf(sb, "%s(\n", indent)
	printBlock(sb, blk, indent+" ")
	fmt.Fprintf(sb, "%s)\n", indent)
}

func numbered(names []string) string {
	if len(names) == 0 {
		return "(none)"
	}
	parts := make([]string, len(names))
	for i, n := range names {
		parts[i] = fmt.Sprintf("%d=%s", i, n)
	}
	return strings.Join(parts, "  ")
}

func genCurveIR() {
	checkFieldMethods()
	g := &curveGen{index: map[string]int{}, decls: map[string]*ast.FuncDecl{}, fsets: map[string]*token.FileSet{}}
	theGen = g
	files := map[string]*ast.File{}
	for i, sp := range curveSpecs {
		if _, ok := files[sp.file]; !ok {
			fs, f := parseFile(sp.file)
			files[sp.file] = f
			g.fsets[sp.file] = fs
		}
		var found *ast.FuncDecl
		for _, d := range files[sp.file].Decls {
			if fd, ok := d.(*ast.FuncDecl); ok && fd.Name.Name == sp.name {
				if found != nil {
					die("untranslatable: %s: two declarations of %s", sp.file, sp.name)
				}
				found = fd
			}
		}
		if found == nil || found.Body == nil {
			die("untranslatable: %s: function %s not found", sp.file, sp.name)
		}
		g.index[sp.name] = i
		g.decls[sp.name] = found
	}
	for _, sp := range curveSpecs {
		g.fns = append(g.fns, translateFn(sp, g.fsets[sp.file], g.decls[sp.name]))
	}
	// the call graph must be acyclic and shallower than the interpreter's fuel (8)
	depth := map[string]int{}
	var visit func(name string, stack []string) int
	visit = func(name string, stack []string) int {
		for _, s := range stack {
			if s == name {
				die("untranslatable: recursive call chain %s -> %s", strings.Join(stack, " -> "), name)
			}
		}
		if d, ok := depth[name]; ok {
			return d
		}
		d := 0
		for _, cal := range g.fns[g.index[name]].calls {
			if cd := visit(cal, append(stack, name)) + 1; cd > d {
				d = cd
			}
		}
		depth[name] = d
		return d
	}
	maxDepth := 0
	for _, sp := range curveSpecs {
		if d := visit(sp.name, nil); d > maxDepth {
			maxDepth = d
		}
	}
	if maxDepth >= 8 {
		die("untranslatable: call depth %d exceeds the interpreter's fuel", maxDepth)
	}

	var sb strings.Builder
	sb.WriteString(`import GoBk.Model.IR
/-
  GoBk.Gen.CurveIR — REGENERATED by /verif/gen (curveir.go) from /repo/bec/btcec.go and
  /repo/bec/pubkey.go.  DO NOT EDIT.  Core Lean only.

  Each Go function below is rendered as a value of GoBk.IR.Fn (data); its meaning is
  GoBk.IR.execBlock over the regenerated word-level field operations (Gen/Field.lean).

  Translation rules
  * every *fieldVal parameter is Cell.param i in declaration order (the curve receiver and
    parameters of other types are skipped; a bool parameter is an INPUT flag); every
    "var a, b fieldVal" is Cell.loc i in declaration order; "name := new(fieldVal).M(…)" and an
    anonymous new(fieldVal) allocate the next Cell.loc; all locals start as zero.
    fieldOne ↦ .fieldOne, curve.fieldB ↦ .fieldB, curve.beta ↦ .beta.  "&x" and "x" (pointer)
    both denote the cell, so a caller passing one pointer for two parameters aliases them.
  * a method chain is flattened in Go's evaluation order: the receiver operand and the calls in it
    first, then the arguments left to right (calls inside an argument before the call they are
    an argument of), then the call:  y3.Set(y1).Mul(f.Add(&negE)).Negate(3)  ⇒
    op y3 (set y1); op f (add negE); op y3 (mul f); op y3 (negate 3).
    The generator checked in bec/field.go that each method used has the expected parameter kinds
    and returns its receiver.  Integer arguments must be literals.
  * conditions: IsZero/IsOdd/Equals, !, &&, ||, bool names (flags), and == / != between two
    conditions (a != b ⇒ (a ∧ ¬b) ∨ (¬a ∧ b)).  A mutating call inside a condition
    (z1.Normalise().Equals(fieldOne)) is emitted as a statement before the test; it is rejected in
    the right operand of && / ||.  "name := <condition>" ⇒ setFlag.
  * if/else ⇒ ite; tag-less switch ⇒ nested ite (case k+1 in the else branch of case k);
    curve.f(args…) ⇒ call fn_f [cells]; return ⇒ ret.
  * SqrtVal reads its argument after writing its receiver (bec/field.go), unlike the IR's
    functional sqrtVal: accepted only when receiver and argument are two distinct local variables.
  * functions that are only partly field arithmetic:
      fieldJacobianToBigAffine  the IR ends (ret) after the two Normalise calls; the conversion of
                                x, y to big.Int that follows is checked to be the expected text
                                and is hand-modelled.
      IsOnCurve                 "fx, fy := curve.bigAffineToField(x, y)" is checked textually and
                                hand-modelled; fx, fy are the parameters 0, 1; "return c" ⇒
                                setFlag <return> c; ret  (flag 0 is the result).
      decompressPoint           "var x fieldVal; x.SetByteSlice(bigX.Bytes())" is checked
                                textually and hand-modelled; x is parameter 0.  The bool parameter
                                ybit is flag 0 and must be supplied by the caller of the
                                interpreter (GoBk.IR.runFnFull).  Each error exit
                                "if c { return nil, fmt.Errorf(…) }" ⇒ ite c [setFlag k c; ret] []
                                with a fresh flag k (1: invalid square root, 2: parity mismatch), so
                                flag k is true on return iff that exit was taken; on success both
                                are false and the result y is local 1.  The final conversion of y
                                to big.Int is checked textually and replaced by ret.
  Anything else stops the generator ("untranslatable: file:line: what").
-/
namespace GoBk.Gen.CurveIR
open GoBk.IR

/-! ## index of each function in prog -/
`)
	for i, sp := range curveSpecs {
		fmt.Fprintf(&sb, "def fn_%s : Nat := %d\n", g.leanName(sp.name), i)
	}
	sb.WriteString("\n")
	for _, c := range g.fns {
		ln := g.leanName(c.spec.name)
		fmt.Fprintf(&sb, "/-- Go: `%s`  (%s:%d)\n", c.spec.name, c.spec.file, c.line)
		fmt.Fprintf(&sb, "  params: %s\n", numbered(c.paramNames))
		fmt.Fprintf(&sb, "  locals: %s\n", numbered(c.localNames))
		fmt.Fprintf(&sb, "  flags:  %s -/\n", strings.ReplaceAll(numbered(c.flagNames), "-/", "- /"))
		fmt.Fprintf(&sb, "def %s_body : Block :=\n", ln)
		printBlock(&sb, c.body, "  ")
		fmt.Fprintf(&sb, "\ndef %s : Fn :=\n  { name := %q, nparams := %d, nlocals := %d, body := %s_body }\n\n",
			ln, c.spec.name, len(c.paramNames), len(c.localNames), ln)
	}
	sb.WriteString("/-- the program: `prog[fn_f]` is `f` -/\ndef prog : Array Fn :=\n  #[")
	for i, sp := range curveSpecs {
		if i > 0 {
			sb.WriteString(", ")
		}
		sb.WriteString(g.leanName(sp.name))
	}
	sb.WriteString("]\n\nend GoBk.Gen.CurveIR\n")
	write("CurveIR.lean", sb.String())
}

// ---------------------------------------------------------------------------------------------
// the byte-point table

// the loader this generator re-implements; if bec/precompute.go differs, the tie is broken
const expectedLoader = `{
	bp := secp256k1BytePoints
	if len(bp) == 0 {
		return nil
	}
	decoder := base64.NewDecoder(base64.StdEncoding, strings.NewReader(bp))
	r, err := zlib.NewReader(decoder)
	if err != nil {
		return err
	}
	serialised, err := ioutil.ReadAll(r)
	if err != nil {
		return err
	}
	offset := 0
	var bytePoints [32][256][3]fieldVal
	for byteNum := 0; byteNum < 32; byteNum++ {
		for i := 0; i < 256; i++ {
			px := &bytePoints[byteNum][i][0]
			py := &bytePoints[byteNum][i][1]
			pz := &bytePoints[byteNum][i][2]
			for i := 0; i < 10; i++ {
				px.n[i] = binary.LittleEndian.Uint32(serialised[offset:])
				offset += 4
			}
			for i := 0; i < 10; i++ {
				py.n[i] = binary.LittleEndian.Uint32(serialised[offset:])
				offset += 4
			}
			for i := 0; i < 10; i++ {
				pz.n[i] = binary.LittleEndian.Uint32(serialised[offset:])
				offset += 4
			}
		}
	}
	secp256k1.bytePoints = &bytePoints
	return nil
}`

func parserParseNoComments(fset *token.FileSet, rel string) (*ast.File, error) {
	return parser.ParseFile(fset, filepath.Join(*repo, rel), nil, 0)
}

func genTable() {
	// 1. the loader is the one re-implemented here (comments are not part of the comparison)
	fset := token.NewFileSet()
	pf, err := parserParseNoComments(fset, "bec/precompute.go")
	if err != nil {
		die("parse bec/precompute.go: %v", err)
	}
	var loader *ast.FuncDecl
	for _, d := range pf.Decls {
		if fd, ok := d.(*ast.FuncDecl); ok && fd.Name.Name == "loadS256BytePoints" && fd.Recv == nil {
			loader = fd
		}
	}
	if loader == nil {
		die("untranslatable: bec/precompute.go: loadS256BytePoints not found")
	}
	var lb strings.Builder
	_ = printer.Fprint(&lb, fset, loader.Body)
	if normText(lb.String()) != normText(expectedLoader) {
		die("untranslatable: bec/precompute.go:%d: loadS256BytePoints is not the loader the table generator re-implements", fset.Position(loader.Pos()).Line)
	}
	// 2. the string constant
	_, sf := parseFile("bec/secp256k1.go")
	var lit *ast.BasicLit
	n := 0
	for _, d := range sf.Decls {
		gd, ok := d.(*ast.GenDecl)
		if !ok {
			continue
		}
		for _, sp := range gd.Specs {
			vs, ok := sp.(*ast.ValueSpec)
			if !ok {
				continue
			}
			for i, nm := range vs.Names {
				if nm.Name == "secp256k1BytePoints" {
					n++
					if len(vs.Values) != len(vs.Names) {
						die("untranslatable: bec/secp256k1.go: secp256k1BytePoints has no initialiser")
					}
					lit, _ = vs.Values[i].(*ast.BasicLit)
				}
			}
		}
	}
	if n != 1 || lit == nil || lit.Kind != token.STRING {
		die("untranslatable: bec/secp256k1.go: secp256k1BytePoints is not a single string literal")
	}
	bp, err := strconv.Unquote(lit.Value)
	if err != nil {
		die("bec/secp256k1.go: %v", err)
	}
	// 3. decode as the loader does
	zr, err := zlib.NewReader(base64.NewDecoder(base64.StdEncoding, strings.NewReader(bp)))
	if err != nil {
		die("untranslatable: bec/secp256k1.go: byte points: %v (the Go loader would return this error)", err)
	}
	ser, err := io.ReadAll(zr)
	if err != nil {
		die("untranslatable: bec/secp256k1.go: byte points: %v (the Go loader would return this error)", err)
	}
	const need = 32 * 256 * 3 * 10 * 4
	if len(ser) < need {
		die("untranslatable: bec/secp256k1.go: byte points: %d bytes, the loader reads %d (it would panic)", len(ser), need)
	}
	var sb bytes.Buffer
	sb.WriteString(`import GoBk.Gen.Field
/-
  GoBk.Gen.Table — REGENERATED by /verif/gen (curveir.go) from the string constant
  secp256k1BytePoints of /repo/bec/secp256k1.go, decoded as loadS256BytePoints
  (/repo/bec/precompute.go, checked to be the expected text) does: base64 → zlib → for each of the
  32 windows, 256 entries, 3 coordinates: 10 little-endian uint32 words.  DO NOT EDIT.

  One Nat literal per coordinate: the raw words w0..w9 packed as Σ w_k · 2^(32·k).
  row i holds bytePoints[i]: entry b, coordinate j (0 = x, 1 = y, 2 = z) is row_i[3·b + j].
-/
namespace GoBk.Gen.Table
open GoBk.Gen.Field

`)
	off := 0
	for i := 0; i < 32; i++ {
		fmt.Fprintf(&sb, "def row%d : Array Nat := #[\n", i)
		for b := 0; b < 256; b++ {
			sb.WriteString("  ")
			for j := 0; j < 3; j++ {
				// hex of Σ w_k 2^(32k): most significant word first
				var words [10]uint32
				for k := 0; k < 10; k++ {
					words[k] = binary.LittleEndian.Uint32(ser[off:])
					off += 4
				}
				s := ""
				for k := 9; k >= 0; k-- {
					s += fmt.Sprintf("%08x", words[k])
				}
				s = strings.TrimLeft(s, "0")
				if s == "" {
					s = "0"
				}
				sb.WriteString("0x" + s)
				if !(b == 255 && j == 2) {
					sb.WriteString(", ")
				}
			}
			sb.WriteString("\n")
		}
		sb.WriteString("]\n\n")
	}
	sb.WriteString("def rows : Array (Array Nat) := #[")
	for i := 0; i < 32; i++ {
		if i > 0 {
			sb.WriteString(", ")
		}
		fmt.Fprintf(&sb, "row%d", i)
	}
	sb.WriteString(`]

/-- word k of a packed coordinate -/
def word (n k : Nat) : UInt32 := UInt32.ofNat ((n >>> (32 * k)) % 4294967296)

/-- a packed coordinate as a field value (raw words, exactly as the loader stores them) -/
def unpack (n : Nat) : FV :=
  { n0 := word n 0, n1 := word n 1, n2 := word n 2, n3 := word n 3, n4 := word n 4,
    n5 := word n 5, n6 := word n 6, n7 := word n 7, n8 := word n 8, n9 := word n 9 }

/-- bytePoints[i][b][j] -/
def get (i b j : Nat) : FV := unpack ((rows.getD i #[]).getD (3 * b + j) 0)

end GoBk.Gen.Table
`)
	write("Table.lean", sb.String())
}
