#!/bin/bash
# pincov.sh [props...]: validation of the pin reach sets: the functions of /repo actually EXECUTED by each property's
# quick op stream (harness built with go build -cover) must be contained in that property's static reach set
# (source_pins.json), apart from what the harness itself calls at start-up.  Prints the offenders per property.
cd "$(dirname "$0")/.."
export GOFLAGS=-mod=mod GOPROXY=off GOSUMDB=off GOTOOLCHAIN=local GOCACHE=$PWD/.work/gocache
T=$(mktemp -d /tmp/pincov.XXXX)
pk=github.com/libsv/go-bk
(cd harness && go build -tags verif -cover -coverpkg=gobkharness,$pk/bec,$pk/bip32,$pk/bip39,$pk/base58,$pk/wif,$pk/crypto,$pk/envelope,$pk/chaincfg -o $T/hcov .) || exit 2
props=${@:-C01 C02 C03 C04 C05 C06 C07 C08 C09 C11 C12 C13 C14 C18 C19 C20}
for p in $props; do
  mkdir -p $T/$p/cov
  for g in $(python3 -c "import sys; sys.path.insert(0,'lib'); from props import PROPS; print(' '.join(PROPS['$p'].get('gens',['$p'])))"); do
    .work/harness gen -prop $g -tier quick -seed 1 -ops $T/$p/$g.ops -classes $T/$p/$g.cls >/dev/null 2>&1
  done
  cat $T/$p/*.ops | GOCOVERDIR=$T/$p/cov $T/hcov run >/dev/null 2>&1
  go tool covdata func -i=$T/$p/cov 2>/dev/null | awk '$3!="0.0%" && /libsv\/go-bk/ {print $1, $2}' | grep -v verif_hooks > $T/$p.funcs
  python3 - "$p" "$T/$p.funcs" <<'PY'
import json,re,sys
p,f=sys.argv[1:]
d=json.load(open('source_pins.json'))
glue={'chaincfg.Register','chaincfg.init','chaincfg.mustRegister','bec.S256','bec.fromHex','bec.initAll','bec.initS256','bec.loadS256BytePoints'}
dyn=set()
for l in open(f):
    path,fn=l.split()
    m=re.match(r'github.com/libsv/go-bk/(\w+)/',path)
    fn=re.sub(r'\.func\d+(\.\d+)*$','',fn.replace('*',''))
    dyn.add(m.group(1)+'.'+fn)
miss=sorted(x for x in dyn-set(d['reach'][p])-glue if not x.startswith('bec.fieldVal.'))
print(p, 'executed', len(dyn), 'reach', len(d['reach'][p]), 'executed-but-not-reached:', miss)
PY
done
rm -rf $T
