#!/usr/bin/env python3
"""Regenerate /verif/MANIFEST.json from the table below (run from /verif)."""
import json, os

ROOT = os.path.dirname(os.path.dirname(os.path.abspath(__file__)))
TB = ("Trusted: Lean 4.33.0 kernel (thorough tier re-checks with leanchecker); axioms propext, Classical.choice, Quot.sound only "
      "(audited per theorem on every run, with a grep for sorry/admit/axiom/native_decide/bv_decide/implemented_by/unsafe); Mathlib v4.33.0; "
      "the translators gen/ and translator/ (validated by the field.*/jac.*/table.* streams); the correspondence harness "
      "(detects disagreement only on generated inputs; their distribution is in the evidence). ")
TIE = (" Tie to /repo, checked on every run: Gen/*.lean regenerated from the working tree (tables, constants, bec/field.go word-level code, "
       "the add/double formulas as IR); hand-written model run against the real code on generated op lines (harness -tags verif vs compiled Lean driver).")

C = {
 "C01": ("Props/C01 (API level): add_exact, double_exact, scalarMult_exact, scalarBaseMult_exact for EVERY scalar byte string (incl. >=N, >32 bytes) against Mathlib's elliptic-curve group over ZMod P with a6=7, isOnCurve_iff; built on machine-checked facts: P and N prime (Pratt certificates), the affine reference = Mathlib group law, #E(F_p) = N (elementary count), phi = lambda, fast Jacobian evaluator = reference. The internal Jacobian/field code is tied by regeneration (Gen/Field, Gen/CurveIR, Gen/Table) and the streams jac.*, field.*, table.get (real code vs regenerated Lean on raw word vectors, every representation class and both aliasing patterns); the theorem that the regenerated formulas implement the group law is work in progress (see DESIGN section 11).",
         "machine-checked proof (Lean 4 + Mathlib group law) + regenerated model + differential correspondence",
         "API-level theorems quantify over the model Model/Curve.lean, which the correspondence ties to the real ScalarMult/ScalarBaseMult/Add/Double; the Jacobian formulas are regenerated and run, not yet proved equal to the group law."),
 "C02": ("Props/C02: sign_eq_rfc6979 (the model equals a transcription of RFC 6979 sections 2.3-3.2 for all keys and all hash lengths, under the 32-byte HMAC output length), sign_range, sign_verifies (uses #E = N), sign_deterministic; r=0/s=0 give an error where the RFC retries (no witness constructible).",
         "machine-checked proof (Lean 4) + differential correspondence", "HMAC-SHA256 is an uninterpreted parameter (only its output length is assumed)."),
 "C03": ("Props/C03: verify_iff (exact acceptance condition for every key, hash and integer pair incl. negatives and >= N), verify_twin, verify_rejects_out_of_range; model of Go 1.23.5 crypto/ecdsa verifyLegacy.",
         "machine-checked proof (Lean 4) + differential correspondence", "Go's crypto/ecdsa legacy verify path is modelled by hand from the go1.23.5 source; a toolchain change shows up in the verify stream."),
 "C05": ("Props/C05: parsePubKey_iff (acceptance set = SEC1 language Spec.sec1, every byte string), decompress_spec via Euler-criterion square roots (P = 3 mod 4), serialisation layouts and round trips, privKey_roundtrip.",
         "machine-checked proof (Lean 4) + differential correspondence", ""),
 "C06": ("Props/C06: serialise_spec, parseDER_serialise, parseDER_iff (acceptance set = strict-DER prefix language, incl. the 0xfe/0xff length-byte wrap), parseLax_iff, parseDER_imp_parseLax for all byte strings.",
         "machine-checked proof (Lean 4) + differential correspondence", ""),
 "C07": ("Props/C07: facts on the REGENERATED word list by kernel evaluation (2048 entries, strictly sorted bytewise, a-z only), mnemonic_spec (bit slicing = arithmetic BIP39 definition), member_iff (binary search = membership), fields/intercalate, toSeed_mnemonic, exact acceptance of MnemonicToSeed.",
         "machine-checked proof (Lean 4) over the regenerated list + differential correspondence", "SHA-256 and PBKDF2 are uninterpreted parameters; strings.Fields is modelled by hand (unicode.IsSpace on possibly invalid UTF-8)."),
 "C08": ("Props/C08: deriveNumber_derivePath for every 64-bit counter, path grammar = Spec.pathComponent, deriveChildFromPath = fold of Child over the parsed indices, string round trip facts (see file header for what is still being proved).",
         "machine-checked proof (Lean 4) + differential correspondence", ""),
 "C11": ("Props/C11: ecdh_agree, pkcs7 lemmas, encrypt_layout (documented wire format incl. tape facts), decrypt_encrypt for every message, decrypt_iff (exact acceptance), header/tag/length tamper corollaries, cfb_roundtrip; NOT theorems and why: 'any change is rejected' is HMAC unforgeability; 'a different key fails' is false for N-d (decrypt_neg_key proves it: known finding K1).",
         "machine-checked proof (Lean 4) + differential correspondence (byte-exact against an independent Lean ECIES)", "AES-CBC/CFB, SHA-512, HMAC, Base64 are parameters with the standard inverse/length facts (PrimsOK) assumed."),
 "C12": ("Props/C12: signCompact_layout, signCompact_total, recover_signCompact, recoverCompact_sound (valid, non-infinity, verifies, SEC1 formula), recoverCompact_length.",
         "machine-checked proof (Lean 4) + differential correspondence", ""),
 "C13": ("Props/C13: encode_spec, decode_encode, encode_decode, decode_invalid, checkDecode_checkEncode, checkDecode_iff for all byte strings; table facts by kernel evaluation of the regenerated tables.",
         "machine-checked proof (Lean 4) over regenerated tables + differential correspondence", ""),
 "C14": ("Props/C14 + C14b: wif_layout, address_layout, hash compositions, decodeWIF_wifString, decodeWIF_iff (exact acceptance) and the three rejection corollaries; the hash helpers are compared with independent Lean SHA-256/RIPEMD-160 by the correspondence.",
         "machine-checked proof (Lean 4) + differential correspondence", ""),
 "C16": ("Props/C16: a heap model of Go slices (arrays, (arr,off,len,cap) slices, in-place append within capacity) with statement-by-statement transcriptions of the argument handling of Encrypt/Decrypt, Mnemonic, crypto.Encrypt/Decrypt, CheckEncode/CheckDecode, Serialise*, WIF/xkey String, Child, SignCompact, NAF; frame theorems (every pre-existing array unchanged over its whole length, so spare capacity too), negative theorems for the three pre-fix variants, determinism/repeatability. Partial by nature: big integers, keys and signatures are values in the model — their non-mutation and the quantifier 'every exported function' rest on the direct observation (harness mem: all 75 exported functions, table checked for completeness against the source, canary windows with spare capacity 0..64, tracked big.Int/key/xkey objects, repeated call).",
         "machine-checked frame proofs over a heap model (Lean 4) + heap-level differential correspondence (mem.*) + exhaustive API sweep with canaries",
         "Go's allocator/GC and slice growth policy are not modelled (not observable here); unsafe is not used by the library."),
 "C17": ("Props/C17: an abstract shared-memory model with sync.Once (blocking Do, happens-before = program order + once completion) and the theorem once_discipline_race_free: for ANY number of threads and EVERY interleaving a program obeying the once-discipline has no data race, runs each once body at most once and every read returns the sequentially initialised value; discipline_holds/bridge_holds: the REGENERATED fact base (every package-level variable, write site, shared-pointer argument, once region, lazily initialised field of the eight packages) satisfies the discipline (by decide). Partial by nature: the Go scheduler and hardware memory model are outside any executable model; they are validated by a race-detector run (2..64 goroutines, first S256() and first pubKeyBytes() raced in fresh processes, results compared with sequential ones).",
         "machine-checked proof over an abstract concurrency model (Lean 4) + regenerated fact extractor + race-detector validation run",
         "The fact extractor gen/facts.go (alias analysis, stdlib read-only tables) is trusted; the Go memory model and sync.Once semantics are modelled, not derived."),
 "C18": ("Props/C18: on the object-store model of key histories (Model/XKeyStore: objects + registers, Neuter of a public key and path \"\" return the same object) frame theorems: every operation leaves every other object unchanged, constructors only append, Zero/SetNet touch exactly one object, a zeroed key reports 'zeroed extended key' and not private, SetNet changes only the version; observations depend on the object value only. The absence of hidden sharing in the real code is tied by the history stream (exhaustive op sequences to length 3 (4 thorough) over 8 ops applied to every live key from private and public roots + random length-30 histories, all live keys observed after every step).",
         "machine-checked proof (Lean 4) on an object-store model + exhaustive-history differential correspondence",
         "Slice-level sharing inside ExtendedKey is not in the value-level model; it is exercised by the history stream (zero one key, observe all others)."),
 "C19": ("Props/C19: the random source as an oracle tape; *_draws theorems: every generated key, IV, seed, entropy IS a tape segment (key = first 32-byte read in [1,N-1], pub = d*G), failing reads give errors (never a constant), `fresh`: pairwise-distinct tape reads give pairwise-distinct random fields across ANY call sequence; sign/derivation/encodings take no tape. Partial by nature: entropy quality of the OS source is outside the model. Tie: crypto/rand.Reader replaced by a logging tape (incl. failing and short reads); outputs must equal the Lean tape consumers byte for byte.",
         "machine-checked proof (Lean 4) over a tape model + byte-exact differential correspondence with an instrumented rand.Reader",
         "Go 1.23.5 ecdsa.GenerateKey (randFieldElement, MaybeReadByte) is modelled by hand; a failed 1-byte MaybeReadByte read is not modelled (the harness never fails 1-byte reads)."),
 "C20": ("Props/C20: isValid_none_none, isValid_one, isValid_iff / isValid_invalid_iff / isValid_error_iff (exact decision logic against canonHash as the property words it), own_valid for EVERY payload byte string (chains C02 sign_verifies, C05/C06 round trips, hex round trip), own_valid_roundtrip under the stated JSON round-trip assumption.",
         "machine-checked proof (Lean 4) + differential correspondence",
         "encoding/json is not modelled: payloads are taken as marshalled by the real code; the envelope's JSON round trip is assumed to be the identity on its string fields (checked on the real code by the harness)."),
 "C15": ("Props/C15: for each of the 16 listed entry points and the 4 envelope field combinations a CHECKED transcription (Model/Checked.lean: index, slice, nil-dereference, CryptBlocks panics modelled) is proved never to panic on any input (_total) and to agree with the total model the harness runs against the real code (_agrees); termination is structural.",
         "machine-checked proof (Lean 4) of panic-freedom of checked transcriptions + differential correspondence with panic capture", "Standard-library internals (sort.Search, regexp, strings.Fields, big.Int) are not transcribed."),
}

def main():
    checks = []
    for pid in sorted(C):
        text, tech, extra = C[pid]
        checks.append({
            "property_id": pid,
            "quick_cmd": f"./check {pid} quick",
            "thorough_cmd": f"./check {pid} thorough",
            "evidence_file": f"/verif/evidence/{pid}.json",
            "replay_cmd_template": f"./check {pid} --replay {{path}}",
            "engine": "lean4-proof+correspondence",
            "level_claimed": {"category": "proof", "text": text + TIE, "design_ref": f"DESIGN.md section 6 ({pid}) and section 11 (as built)"},
            "level_note": TB + extra,
            "technique": tech,
        })
    na = []
    for i in range(1, 21):
        pid = f"C{i:02d}"
        if pid not in C:
            na.append({"property_id": pid, "reason": "not yet claimed: model and correspondence stream exist, property theorems are still being proved in this round (see DESIGN.md section 11)"})
    m = {"version": 1, "setup_cmd": "./setup",
         "hooks": {"guard": "verif", "enable": "go build -tags verif (harness module: replace github.com/libsv/go-bk => /repo)",
                   "baseline_off_cmd": "cd /repo && go test -vet=off -count=1 ./...",
                   "source_commits": ["9fef606"], "add_only": True},
         "engines": [{"name": "lean4-proof+correspondence", "path": "/verif/check", "serves_properties": sorted(C),
                      "kind_free_text": "Lean 4 theorems about an executable model (lean/GoBk); model regenerated from /repo (gen/, translator/) and validated against the real code by a line-protocol differential harness (harness/ vs the compiled Lean driver)"}],
         "checks": checks, "not_applicable": na,
         "notes": "See DESIGN.md. known_findings.jsonl: 16 fixed defects (fix: commits in /repo) and one known finding (K1). seeded/: confirmed breaking changes and which check catches each."}
    with open(os.path.join(ROOT, "MANIFEST.json"), "w") as f:
        json.dump(m, f, indent=1)

if __name__ == "__main__":
    main()
