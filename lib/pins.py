"""Source pins: the tie between the HAND-WRITTEN models and the text they were transcribed from.

The hand models (lean/GoBk/Model/*) were written from, and validated by the correspondence streams against, one
particular text of each library function.  `source_pins.json` records a comment- and layout-insensitive fingerprint
of every function and package-level declaration of /repo at that point, plus, per property, the functions its
entry points reach in the static call graph.  On every run the check recomputes both from /repo's working tree:

  * a reached function / declaration whose fingerprint differs, is new, or has disappeared  ->  the correspondence
    for that function is no longer established: the entry ("source-pin", name, detail) joins the `broken` list, the
    search for a failing input is escalated to the thorough generators, and the verdict follows the usual rule
    (VIOLATION with the failing input, or `... no-failing-input-found` naming the pin).
  * functions whose model is REGENERATED and whose semantics is re-proved on every run (the fieldVal methods:
    translator -> Gen/Field.lean -> Props C09/C10) are not pinned; a property that reaches them builds those proof
    modules instead (see check: proof-dependency).

Comments, white space and unreached code do not matter.  Regenerate with `python3 lib/pins.py --write` ONLY after
the models have been re-validated against a new text (e.g. after a `fix:` commit).
"""
import json
import os
import re
import subprocess
import sys

PKGS = ["base58", "bec", "bip32", "bip39", "chaincfg", "crypto", "envelope", "wif"]
MOD = "github.com/libsv/go-bk/"

# entry points per property (the API functions its op streams call)
_XK = ["bip32.NewMaster", "bip32.NewKeyFromString", "bip32.NewExtendedKey", "bip32.ExtendedKey.Child", "bip32.ExtendedKey.Neuter",
       "bip32.ExtendedKey.ECPubKey", "bip32.ExtendedKey.ECPrivKey", "bip32.ExtendedKey.String", "bip32.ExtendedKey.IsPrivate",
       "bip32.ExtendedKey.Depth", "bip32.ExtendedKey.ParentFingerprint", "bip32.ExtendedKey.Address", "bip32.ExtendedKey.SetNet",
       "bip32.ExtendedKey.Zero", "bip32.ExtendedKey.IsForNet", "bip32.ExtendedKey.DeriveChildFromPath",
       "bip32.ExtendedKey.DerivePublicKeyFromPath", "chaincfg.Register", "chaincfg.HDPrivateKeyToPublicKeyID",
       "bec.PrivateKey.Serialise", "bec.PublicKey.SerialiseCompressed"]   # keys are observed through these
_CURVE = ["bec.S256", "bec.KoblitzCurve.Add", "bec.KoblitzCurve.Double", "bec.KoblitzCurve.ScalarMult",
          "bec.KoblitzCurve.ScalarBaseMult", "bec.KoblitzCurve.IsOnCurve", "bec.KoblitzCurve.Params", "bec.NAF", "bec.decompressPoint"]
ALL_API = "*"   # every exported function
ENTRIES = {
    "C01": _CURVE,
    "C02": ["bec.PrivateKey.Sign", "bec.PrivKeyFromBytes", "bec.Signature.IsEqual", "bec.Signature.Verify", "bec.S256"],
    "C03": ["bec.Signature.Verify", "bec.S256"],
    "C04": _XK,
    "C05": ["bec.ParsePubKey", "bec.PublicKey.SerialiseCompressed", "bec.PublicKey.SerialiseUncompressed", "bec.PublicKey.SerialiseHybrid",
            "bec.PrivKeyFromBytes", "bec.PrivateKey.Serialise", "bec.PrivateKey.PubKey", "bec.IsCompressedPubKey", "bec.PublicKey.IsEqual", "bec.S256"],
    "C06": ["bec.ParseDERSignature", "bec.ParseSignature", "bec.Signature.Serialise", "bec.Signature.IsEqual", "bec.S256"],
    "C07": ["bip39.Mnemonic", "bip39.MnemonicToSeed"],
    "C08": _XK + ["bip32.DerivePath", "bip32.DeriveNumber"],
    "C09": _CURVE,  # field.go and the curve formulas are regenerated and re-proved; the glue between the big.Int API and
                    # them (bigAffineToField, the scalar loops, NAF, splitK) is hand-modelled and decides the call-site contracts
    "C10": _CURVE + ["bec.ParsePubKey"],   # the call sites of Normalise/Equals/IsOdd/IsZero/Bytes: a predicate applied to a value
                                           # that is not normalised there is a C10 matter too
    "C11": ["bec.Encrypt", "bec.Decrypt", "bec.GenerateSharedSecret", "bec.NewPrivateKey", "bec.PrivKeyFromBytes", "crypto.Encrypt", "crypto.Decrypt", "bec.S256"],
    "C12": ["bec.SignCompact", "bec.RecoverCompact", "bec.PrivKeyFromBytes", "bec.S256"],
    "C13": ["base58.Encode", "base58.Decode", "base58.CheckEncode", "base58.CheckDecode"],
    "C14": ["wif.NewWIF", "wif.DecodeWIF", "wif.WIF.String", "wif.WIF.IsForNet", "wif.WIF.SerialisePubKey", "bip32.NewExtendedKey",
            "bip32.ExtendedKey.Address", "bec.PrivKeyFromBytes", "bec.S256"],
    "C15": ALL_API,
    "C16": ALL_API,
    "C17": ALL_API,
    "C18": _XK,
    "C19": ["bec.NewPrivateKey", "bip32.GenerateSeed", "bip39.GenerateEntropy", "bec.Encrypt", "crypto.Encrypt", "envelope.NewJSONEnvelope",
            "envelope.JSONEnvelope.IsValid", "bec.PrivateKey.Sign", "bec.SignCompact", "bec.PrivKeyFromBytes", "bec.S256"],
    "C20": ["envelope.NewJSONEnvelope", "envelope.JSONEnvelope.IsValid", "bec.S256"],
}

# calls the static call graph cannot see (function values, interface dispatch through the standard library)
_CURVE_METHODS = ["bec.KoblitzCurve.Add", "bec.KoblitzCurve.Double", "bec.KoblitzCurve.ScalarMult", "bec.KoblitzCurve.ScalarBaseMult",
                  "bec.KoblitzCurve.IsOnCurve", "bec.KoblitzCurve.Params"]
EXTRA_EDGES = {
    "bec.S256": ["bec.initAll", "bec.initS256"],                    # sync.Once.Do(initAll)
    "bec.initAll": ["bec.initS256"],
    "bec.Signature.Verify": _CURVE_METHODS,                          # crypto/ecdsa -> elliptic.Curve interface
    "bec.NewPrivateKey": _CURVE_METHODS,                             # ecdsa.GenerateKey
    "bec.Decrypt": _CURVE_METHODS,
    "bec.Encrypt": _CURVE_METHODS,
}

CURVE_SELECTORS = {"ScalarMult", "ScalarBaseMult", "IsOnCurve", "Params", "Double"}

# models regenerated from the source and re-proved on every run: not pinned
def regenerated(name):
    return name.startswith("bec.fieldVal.")


def norm(n):
    """callgraph name -> pins name"""
    n = n.replace("(*", "").replace("(", "").replace(")", "")
    if not n.startswith(MOD):
        return None
    n = n[len(MOD):]
    n = re.sub(r"\$\d+", "", n)          # closures belong to their enclosing function
    n = re.sub(r"#\d+$", "", n)          # init#1
    return n


def current(repo, gobkgen, env):
    """(pins, edges) of the working tree"""
    out = subprocess.run([gobkgen, "-pins", "-repo", repo], stdout=subprocess.PIPE, stderr=subprocess.PIPE, text=True)
    if out.returncode != 0:
        raise RuntimeError("gobkgen -pins failed: " + out.stderr[-500:])
    data = json.loads(out.stdout)
    pins, sels = data["pins"], data["selectors"]
    e2 = dict(env, GOFLAGS="-mod=vendor")
    cg = subprocess.run(["callgraph", "-algo", "static", "-format", "{{.Caller}}\t{{.Callee}}", "./..."], cwd=repo, env=e2,
                        stdout=subprocess.PIPE, stderr=subprocess.PIPE, text=True)
    if cg.returncode != 0:
        raise RuntimeError("callgraph failed: " + cg.stderr[-800:])
    edges = {}
    for line in cg.stdout.splitlines():
        a, _, b = line.partition("\t")
        a, b = norm(a), norm(b)
        if a and b and a != b:
            edges.setdefault(a, set()).add(b)
    for a, bs in EXTRA_EDGES.items():
        edges.setdefault(a, set()).update(bs)
    # interface dispatch on elliptic.Curve: a function that calls a method with one of these (distinctive) names
    # through a selector may reach the KoblitzCurve implementation of THAT method
    for fn, names in sels.items():
        if not fn.startswith("bec.KoblitzCurve."):
            for nm in CURVE_SELECTORS & set(names):
                edges.setdefault(fn, set()).add("bec.KoblitzCurve." + nm)
    return pins, edges


def exported_api(pins):
    out = []
    for n in pins:
        if ":" in n:
            continue
        parts = n.split(".")
        if all(p[:1].isupper() for p in parts[1:]):
            out.append(n)
    return out


def reach(prop, pins, edges):
    ent = ENTRIES[prop]
    if ent == ALL_API:
        ent = exported_api(pins)
    seen, todo = set(), list(ent)
    while todo:
        f = todo.pop()
        if f in seen:
            continue
        seen.add(f)
        todo.extend(edges.get(f, ()))
    pk = {f.split(".")[0] for f in seen}
    # package initialisation and package-level declarations of every reached package
    for n in pins:
        p = n.split(":")[0].split(".")[0]
        if p in pk and (":" in n or n.split(".", 1)[1].startswith("init")):
            if n not in seen:
                seen.add(n)
                if ":" not in n:
                    stack = [n]
                    while stack:
                        g = stack.pop()
                        for h in edges.get(g, ()):
                            if h not in seen:
                                seen.add(h)
                                stack.append(h)
    return sorted(seen)


def compare(prop, repo, gobkgen, env, pinfile):
    """-> (mismatches [(name, detail)], coverage dict, which regenerated layers the property reaches: "field", "curve")"""
    with open(pinfile) as f:
        base = json.load(f)
    pins, edges = current(repo, gobkgen, env)
    cur_reach = set(reach(prop, pins, edges))
    base_reach = set(base["reach"].get(prop, []))
    bad = []
    for n in sorted(cur_reach | base_reach):
        if regenerated(n):
            continue
        c, b = pins.get(n), base["pins"].get(n)
        if c == b and c is not None:
            continue
        if b is None:
            bad.append((n, "new function/declaration reached by the property's entry points; no model was validated against it"))
        elif c is None:
            bad.append((n, "function/declaration the model was transcribed from no longer exists"))
        else:
            bad.append((n, f"source text differs from the text the model was transcribed from (pin {b}, now {c})"))
    pinned = [n for n in cur_reach if not regenerated(n)]
    cov = {"source_pins_checked": len(pinned), "source_pins_mismatched": len(bad),
           "source_pins_regenerated_instead": len([n for n in cur_reach if regenerated(n)]),
           "source_pins_commit": base.get("repo_commit", "")}
    touches = []
    if any(regenerated(n) for n in cur_reach):
        touches.append("field")
    if any(n.startswith("bec.KoblitzCurve.") for n in cur_reach):
        touches.append("curve")
    cov["_reach"] = sorted(n for n in cur_reach if ":" not in n)
    return bad, cov, touches


def main():
    root = os.path.dirname(os.path.dirname(os.path.abspath(__file__)))
    repo = os.environ.get("VERIF_REPO", "/repo")
    env = dict(os.environ, GOPROXY="off", GOSUMDB="off", GOTOOLCHAIN="local")
    gobkgen = os.path.join(root, ".work", "gobkgen")
    if len(sys.argv) > 1 and sys.argv[1] == "--write":
        pins, edges = current(repo, gobkgen, env)
        commit = subprocess.run(["git", "-C", repo, "rev-parse", "HEAD"], stdout=subprocess.PIPE, text=True).stdout.strip()
        dirty = subprocess.run(["git", "-C", repo, "status", "--porcelain", "--untracked-files=no"], stdout=subprocess.PIPE, text=True).stdout.strip()
        if dirty:
            sys.exit("refusing to pin a dirty working tree:\n" + dirty)
        data = {"repo_commit": commit, "pins": pins, "reach": {p: reach(p, pins, edges) for p in sorted(ENTRIES)}}
        with open(os.path.join(root, "source_pins.json"), "w") as f:
            json.dump(data, f, indent=1, sort_keys=True)
        for p in sorted(ENTRIES):
            print(p, len(data["reach"][p]))
        return
    for p in sys.argv[1:] or sorted(ENTRIES):
        bad, cov, _ = compare(p, repo, gobkgen, env, os.path.join(root, "source_pins.json"))
        print(p, cov, bad[:5])


if __name__ == "__main__":
    main()
