#!/bin/bash
# sweep.sh <tier> <seed>... : run every property's check at the given tier for each seed; print one line per run
# (for background false-alarm hunting with `vp run`; evidence written by these runs is NOT committed).
tier=$1; shift
./setup >/dev/null 2>&1
for s in "$@"; do
  for p in C01 C02 C03 C04 C05 C06 C07 C08 C09 C10 C11 C12 C13 C14 C15 C16 C17 C18 C19 C20; do
    out=$(VERIF_SEED=$s ./check $p $tier 2>&1); rc=$?
    echo "seed=$s rc=$rc $(echo "$out" | tail -1)"
    [ $rc -ne 0 ] && echo "$out" | grep -E "VIOLATION|broken:|^   \{" | head -8 | cut -c1-600
  done
done
