#!/bin/bash
# all 20 quick checks at once (as an evaluator with a parallel driver might run them); prints one line per check
cd "$(dirname "$0")/.."
for p in C01 C02 C03 C04 C05 C06 C07 C08 C09 C10 C11 C12 C13 C14 C15 C16 C17 C18 C19 C20; do
  ( out=$(./check $p quick 2>&1); echo "rc=$? $(echo "$out" | tail -1)" ) &
done
wait
