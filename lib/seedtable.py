#!/usr/bin/env python3
"""Regenerate seeded/RESULTS.md from seeded/*/meta.json."""
import json, os, glob, re
ROOT = os.path.dirname(os.path.dirname(os.path.abspath(__file__)))
rows = []
for mf in sorted(glob.glob(os.path.join(ROOT, "seeded", "*", "meta.json"))):
    m = json.load(open(mf))
    rd = m.get("readme_excerpt", "")
    # first sentence describing the change, if the README has a per-change heading
    k = m["id"].split("-m")[1]
    desc = m.get("summary", "")
    if not desc:
        mm = re.search(r"(?im)^#+\s*m%s\b[^\n]*\n+(.{0,400})" % k, rd, re.S)
        desc = (mm.group(0).split("\n")[0].lstrip("# ").strip() if mm else "")
    rows.append((m["id"], m["property"], "yes" if m.get("confirmed") else "NO", "yes" if m.get("caught_by_check") else "NO",
                 "concrete input" if m.get("caught_with_failing_input") else ("no-failing-input-found" if m.get("caught_by_check") else "-"),
                 m.get("strengthened", ""), desc[:160]))
with open(os.path.join(ROOT, "seeded", "RESULTS.md"), "w") as f:
    f.write("# Seeded breaking changes and which check catches them\n\n"
            "Each change was written by a fresh sub-agent that saw only the property text and its own worktree; it compiles and passes the\n"
            "158-test suite; its demonstration fails with the change and passes without it (confirmed in a scratch worktree by lib/seedcheck).\n"
            "`caught` = `./check <property> quick` run against the patched tree (lib/mutest) printed a VIOLATION line.\n\n"
            "| id | property | confirmed | caught by quick check | replay | check strengthened because of it | change |\n|---|---|---|---|---|---|---|\n")
    for r in rows:
        f.write("| " + " | ".join(r) + " |\n")
print(len(rows), "seeds")
