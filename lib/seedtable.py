#!/usr/bin/env python3
"""Regenerate seeded/RESULTS.md from seeded/*/meta.json."""
import json, os, glob, re
ROOT = os.path.dirname(os.path.dirname(os.path.abspath(__file__)))
rows = []
harmless = []
for mf in sorted(glob.glob(os.path.join(ROOT, "seeded", "*", "meta.json"))):
    m = json.load(open(mf))
    if m.get("kind", "").startswith("harmless"):
        harmless.append((m["id"], m["property"], "yes" if m.get("confirmed") else "NO", m.get("without_pins", "?"),
                         m.get("full_check_verdict", "?"), m.get("summary", "")[:200]))
        continue
    rd = m.get("readme_excerpt", "")
    # first sentence describing the change, if the README has a per-change heading
    k = m["id"].split("-m")[1]
    desc = m.get("summary", "")
    if not desc:
        mm = re.search(r"(?im)^#+\s*m%s\b[^\n]*\n+(.{0,400})" % k, rd, re.S)
        desc = (mm.group(0).split("\n")[0].lstrip("# ").strip() if mm else "")
    rows.append((m["id"], m["property"], "yes" if m.get("confirmed") else "NO", "yes" if m.get("caught_by_check") else "NO",
                 "concrete input" if m.get("caught_with_failing_input") else ("no-failing-input-found" if m.get("caught_by_check") else "-"),
                 m.get("strengthened", ""), desc[:160]))
with open(os.path.join(ROOT, "seeded", "RESULTS.md"), "w") as f:
    f.write("# Seeded breaking changes and which check catches them\n\n"
            "Each change was written by a fresh sub-agent that saw only the property text and its own worktree; it compiles and passes the\n"
            "158-test suite; its demonstration fails with the change and passes without it (confirmed in a scratch worktree by lib/seedcheck).\n"
            "`caught` = `./check <property> quick` run against the patched tree (lib/mutest) printed a VIOLATION line.\n\n"
            "| id | property | confirmed | caught by quick check | replay | check strengthened because of it | change |\n|---|---|---|---|---|---|---|\n")
    for r in rows:
        f.write("| " + " | ".join(r) + " |\n")
    f.write("\n# Behaviour-preserving changes (false-alarm side)\n\n"
            "Written by the same kind of sub-agent, with a differential test against the original code that passes with and without the\n"
            "change (lib/harmcheck). `without pins` = verdict of streams + oracles + proofs alone (VERIF_NOPINS=1): `silent` (exit 0),\n"
            "`tie-broken` (a translator or proof no longer applies: VIOLATION ... no-failing-input-found) or `CONCRETE` (a false alarm\n"
            "with a replay: a defect of the machinery). `full check`: the verdict with the source pins.\n\n"
            "| id | property | equivalent (demo passes both ways, suite passes) | without pins | full check | change |\n|---|---|---|---|---|---|\n")
    for r in harmless:
        f.write("| " + " | ".join(r) + " |\n")
print(len(rows), "seeds", len(harmless), "harmless")
