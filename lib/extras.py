"""Extra machinery of ./check for C16 (argument-memory sweep) and C17 (race-detector run)."""
import json
import os
import subprocess


def _run(cmd, cwd=None, env=None, timeout=3600):
    p = subprocess.run(cmd, cwd=cwd, env=env, stdout=subprocess.PIPE, stderr=subprocess.PIPE, text=True, timeout=timeout)
    return p.returncode, p.stdout, p.stderr


def mem_sweep(tier, seed, WORK, ROOT, REPO, GOENV):
    """Drive every exported function with canary-backed argument windows (harness mem)."""
    out = {"coverage": {}, "violations": [], "broken": []}
    harness = os.path.join(WORK, "harness")
    # completeness of the API table against the source
    rc, api, err = _run([os.path.join(WORK, "gobkgen"), "-repo", REPO, "-api"])
    rc2, cov, err2 = _run([harness, "mem", "-list"])
    api_set, cov_set = set(api.split()), set(cov.split())
    missing = sorted(api_set - cov_set)
    if rc != 0 or rc2 != 0 or missing:
        out["broken"].append(("api-coverage", "harness/mem.go memAPI",
                              "exported functions without a memory-effect driver: " + ", ".join(missing) + err + err2))
    rc, so, se = _run([harness, "mem", "-tier", tier, "-seed", str(seed)])
    try:
        res = json.loads(so)
    except Exception:
        out["broken"].append(("mem-sweep", "harness mem", (so + se)[-1500:]))
        return out
    out["coverage"]["mem_functions"] = res["functions"]
    out["coverage"]["mem_calls"] = res["calls"]
    out["coverage"]["mem_api_names"] = len(api_set)
    for p in (res.get("problems") or []):
        out["violations"].append({"kind": "impl-vs-spec", "op": "mem-sweep", "class": "mem", "impl": p, "model": "arguments unchanged / result repeatable",
                                  "replay": f"{harness} mem -tier {tier} -seed {seed}"})
    return out


def race_run(tier, seed, WORK, ROOT, REPO, GOENV):
    """Build the harness with -race and run the shared-object scenarios in fresh processes."""
    out = {"coverage": {}, "violations": [], "broken": []}
    hdir = os.path.join(ROOT, "harness")
    binp = os.path.join(WORK, "harness-race")
    rc, so, se = _run(["go", "build", "-race", "-tags", "verif", "-o", binp, "."], cwd=hdir, env=GOENV)
    if rc != 0:
        out["broken"].append(("race-build", "go build -race", (so + se)[-1500:]))
        return out
    runs = [(2, 2), (8, 2), (16, 2), (64, 1)] if tier == "quick" else [(2, 5), (4, 5), (8, 5), (16, 5), (32, 5), (64, 5)] * 4
    calls = 0
    scen = set()
    for i, (w, r) in enumerate(runs):
        rc, so, se = _run([binp, "conc", "-workers", str(w), "-rounds", str(r), "-seed", str(seed + i)],
                          env=dict(os.environ, GORACE="halt_on_error=1 exitcode=66"))
        cmd = f"{binp} conc -workers {w} -rounds {r} -seed {seed + i}"
        if rc == 66 or "DATA RACE" in se:
            out["violations"].append({"kind": "impl-vs-spec", "op": "race", "class": "conc", "impl": se[-1500:], "model": "no data race", "replay": cmd})
            continue
        try:
            res = json.loads(so)
        except Exception:
            out["broken"].append(("race-run", cmd, (so + se)[-1000:]))
            continue
        calls += res["calls"]
        scen.update(res["scenarios"])
        for m in (res.get("Mismatches") or res.get("mismatches") or []):
            out["violations"].append({"kind": "impl-vs-spec", "op": "conc", "class": "conc", "impl": m, "model": "same as sequential", "replay": cmd})
    out["coverage"]["race_processes"] = len(runs)
    out["coverage"]["race_calls"] = calls
    out["coverage"]["race_scenarios"] = sorted(scen)
    return out
