"""Extra machinery of ./check for C16 (argument-memory sweep) and C17 (race-detector run)."""
import json
import os
import subprocess


def _run(cmd, cwd=None, env=None, timeout=3600):
    try:
        p = subprocess.run(cmd, cwd=cwd, env=env, stdout=subprocess.PIPE, stderr=subprocess.PIPE, text=True, timeout=timeout)
    except subprocess.TimeoutExpired as e:
        so = e.stdout if isinstance(e.stdout, str) else (e.stdout or b"").decode("utf-8", "replace")
        return 124, so, f"TIMEOUT after {timeout} s (the real code did not return): {' '.join(map(str, cmd))[:200]}"
    return p.returncode, p.stdout, p.stderr


def mem_sweep(tier, seed, WORK, ROOT, REPO, GOENV):
    """Drive every exported function with canary-backed argument windows (harness mem)."""
    out = {"coverage": {}, "violations": [], "broken": []}
    harness = os.path.join(WORK, "harness")
    # completeness of the API table against the source
    rc, api, err = _run([os.path.join(WORK, "gobkgen"), "-repo", REPO, "-api"])
    rc2, cov, err2 = _run([harness, "mem", "-list"])
    api_set, cov_set = set(api.split()), set(cov.split())
    missing = sorted(api_set - cov_set)
    if rc != 0 or rc2 != 0 or missing:
        out["broken"].append(("api-coverage", "harness/mem.go memAPI",
                              "exported functions without a memory-effect driver: " + ", ".join(missing) + err + err2))
    rc, so, se = _run([harness, "mem", "-tier", tier, "-seed", str(seed)], timeout=2400)
    if rc == 124:
        out["violations"].append({"kind": "impl-vs-spec", "op": "mem-sweep", "class": "hang", "impl": se, "model": "every call returns",
                                  "replay": f"{harness} mem -tier {tier} -seed {seed}"})
        return out
    try:
        res = json.loads(so)
    except Exception:
        out["broken"].append(("mem-sweep", "harness mem", (so + se)[-1500:]))
        return out
    out["coverage"]["mem_functions"] = res["functions"]
    out["coverage"]["mem_calls"] = res["calls"]
    out["coverage"]["mem_api_names"] = len(api_set)
    for p in (res.get("problems") or []):
        out["violations"].append({"kind": "impl-vs-spec", "op": "mem-sweep", "class": "mem", "impl": p, "model": "arguments unchanged / result repeatable",
                                  "replay": f"{harness} mem -tier {tier} -seed {seed}"})
    return out


def race_run(tier, seed, WORK, ROOT, REPO, GOENV):
    """Build the harness with -race and run the shared-object scenarios in fresh processes."""
    out = {"coverage": {}, "violations": [], "broken": []}
    hdir = os.path.join(ROOT, "harness")
    binp = os.path.join(WORK, "harness-race")
    rc, so, se = _run(["go", "build", "-race", "-tags", "verif", "-o", binp, "."], cwd=hdir, env=GOENV)
    if rc != 0:
        out["broken"].append(("race-build", "go build -race", (so + se)[-1500:]))
        return out
    runs = [(2, 2), (8, 2), (16, 2), (64, 1)] if tier == "quick" else [(2, 5), (4, 5), (8, 5), (16, 5), (32, 5), (64, 5)] * 4
    calls = 0
    scen = set()
    for i, (w, r) in enumerate(runs):
        rc, so, se = _run([binp, "conc", "-workers", str(w), "-rounds", str(r), "-seed", str(seed + i)],
                          env=dict(os.environ, GORACE="halt_on_error=1 exitcode=66"), timeout=900)
        cmd = f"{binp} conc -workers {w} -rounds {r} -seed {seed + i}"
        if rc == 124:
            out["violations"].append({"kind": "impl-vs-spec", "op": "conc", "class": "hang", "impl": se, "model": "every call returns (no deadlock)", "replay": cmd})
            continue
        if rc == 66 or "DATA RACE" in se:
            out["violations"].append({"kind": "impl-vs-spec", "op": "race", "class": "conc", "impl": se[-1500:], "model": "no data race", "replay": cmd})
            continue
        try:
            res = json.loads(so)
        except Exception:
            out["broken"].append(("race-run", cmd, (so + se)[-1000:]))
            continue
        calls += res.get("calls") or 0
        scen.update(res.get("scenarios") or [])
        for m in (res.get("Mismatches") or res.get("mismatches") or []):
            out["violations"].append({"kind": "impl-vs-spec", "op": "conc", "class": "conc", "impl": m, "model": "same as sequential", "replay": cmd})
    out["coverage"]["race_processes"] = len(runs)
    out["coverage"]["race_calls"] = calls
    out["coverage"]["race_scenarios"] = sorted(scen)
    return out


def wrap_search(tier, seed, WORK, ROOT, REPO, GOENV):
    """C09: run every formula of the C01J stream in lock-step with the exact twins (driver op jac.wrap) and
    confirm each reported wrap on the real code (harness op field.exact)."""
    out = {"coverage": {}, "violations": [], "broken": []}
    harness = os.path.join(WORK, "harness")
    driver = os.path.join(ROOT, "lean", ".lake", "build", "bin", "driver")
    ops_f = os.path.join(WORK, f"wrap.{os.getpid()}.ops")
    lines = []
    for g in ("C01J", "C09W"):
        rc, so, se = _run([harness, "gen", "-prop", g, "-tier", tier, "-seed", str(seed), "-ops", ops_f, "-classes", os.devnull])
        if rc != 0:
            out["broken"].append(("wrap-search", "harness gen " + g, (so + se)[-800:]))
            return out
        with open(ops_f) as f:
            for line in f:
                line = line.rstrip("\n")
                t = line.split(" ", 1)
                if line.startswith("jac.wrap"):
                    lines.append(line)
                elif len(t) == 2 and t[0].startswith("jac.") and t[0][4:] in ("add", "double", "addv1", "addv2", "addv3", "addv4", "dblv1", "dblv2", "toaffine"):
                    lines.append("jac.wrap " + t[0][4:] + " " + t[1])
        os.remove(ops_f)
    import subprocess
    from concurrent.futures import ThreadPoolExecutor
    k = max(1, min(os.cpu_count() or 4, len(lines) // 200 + 1))
    chunks = [lines[i::k] for i in range(k)]

    def one(ch):
        p = subprocess.run([driver], input="\n".join(ch) + "\n", stdout=subprocess.PIPE, text=True)
        return p.stdout.splitlines()
    with ThreadPoolExecutor(max_workers=k) as ex:
        res = list(ex.map(one, chunks))
    wraps = {}
    nsafe = 0
    for ch, outl in zip(chunks, res):
        for ln, o in zip(ch, outl):
            if o == "ok safe":
                nsafe += 1
            elif o.startswith("ok wrap ") or o.startswith("ok contract "):
                wraps.setdefault(o[len("ok "):], ln)     # "wrap <field op line>" / "contract <field op line>"
            else:
                out["broken"].append(("wrap-search", "driver jac.wrap", (ln[:200] + " -> " + o)[:400]))
                break
    out["coverage"]["wrap_formula_runs"] = len(lines)
    out["coverage"]["wrap_safe_runs"] = nsafe
    out["coverage"]["wrap_witnesses_in_model"] = len(wraps)
    if wraps:
        exact_lines = [("field.exact " + w[len("wrap "):]) if w.startswith("wrap ") else ("field.contract " + w[len("contract "):]) for w in wraps]
        p = subprocess.run([harness, "run"], input="\n".join(exact_lines) + "\n", stdout=subprocess.PIPE, text=True)
        impl = p.stdout.splitlines()
        confirmed = 0
        for w, r in zip(wraps, impl):
            if r in ("ok inexact", "ok violated"):
                confirmed += 1
                if confirmed <= 20:
                    out["violations"].append({"kind": "impl-vs-spec", "op": ("field.exact " + w[5:]) if w.startswith("wrap ") else ("field.contract " + w[9:]), "class": w.split(" ", 1)[0], "impl": r, "model": "ok exact / ok within", "expected": "ok exact / ok within",
                                              "reached_from": wraps[w][:3000],
                                              "note": "this field operation is performed by the formula on the input `reached_from`; on the real code its result differs from exact integer arithmetic (a 32/64-bit word overflowed or underflowed)"})
            elif r not in ("ok exact", "ok within"):
                out["broken"].append(("wrap-search", "harness field.exact", (w[:200] + " -> " + r)[:400]))
        out["coverage"]["wrap_witnesses_confirmed_on_real_code"] = confirmed
        if confirmed == 0:
            out["broken"].append(("wrap-model-only", "jac.wrap", "the regenerated model reports a wrapping operation that the real code does not exhibit: " + next(iter(wraps))[:300]))
    return out
