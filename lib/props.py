"""Per-property configuration of ./check (what counts as a non-trivial case, extra machinery)."""
from extras import mem_sweep, race_run, wrap_search


def _triv_reject(op, res):
    return res in ("err", "bad-op")


PROPS = {
    "C01": {"rule": "curve.add/double/smul/sbmul/oncurve on a structured point pool (multiples of G by boundary scalars, negatives, endomorphism images, infinity) x structured scalar byte strings (empty, zero, >=N, >32 bytes, single bits, NAF carry patterns, table rows); real code vs Lean affine group law. Plus stream C01J: jac.add/double/addv1-4/dblv1-2/toaffine (hooks, raw word vectors) on the pool in every Jacobian representation class x coordinate dressing (normalised, raw Mul2 output, NegateVal output, +P/carries) x aliasing pattern, jac.oncurve/decompress, table.get; real code vs the IR regenerated from bec/btcec.go run over the regenerated field ops.",
            "gens": ["C01", "C01J", "C10"],
            "trivial": lambda op, res: False},
    "C02": {"shared": ["Prims"], "gens": ["C02", "C10", "C01", "C01J"], "rule": "sign d h over boundary keys (1, 2, N-1, N-2, leading-zero keys) x hashes of length 0..100 and values 0, N-1, N, N+1, 2^256-1; (r,s) compared with the Lean RFC 6979 model; repeated call must agree.",
            "trivial": lambda op, res: False},
    "C03": {"gens": ["C03", "C10", "C01", "C01J"], "rule": "verify on honest signatures, (r,N-s) twins, one-field perturbations, range violations, negatives, r+N/s+N aliases and signatures constructed for chosen u1,u2 (doubling branch, infinity, e=0, hash>=N).",
            "trivial": lambda op, res: False},
    "C04": {"shared": ["Prims"], "gens": ["C04", "C01J"], "rule": "xk histories: master from seeds of every length 0..80, child at boundary indices, short-key subtrees, depth-255 chains, neuter/child commutation, all registered networks; every live key observed (String, depth, fingerprint, address, pub, priv) after every step.",
            "trivial": lambda op, res: res.startswith("ok e") and "/" not in res},
    "C05": {"gens": ["C05", "C10", "C01", "C01J"], "rule": "parsepub over every length 0..70 x prefix byte, valid u/c/h encodings of the point pool, parity flips, off-curve, x/y aliases +P, boundary coordinates; serpub; privbytes for scalars of 0..32 bytes.",
            "trivial": lambda op, res: op.startswith("parsepub") and res == "err" and len(op.split()[1]) not in (66, 130)},
    "C06": {"rule": "der.ser over all (r,s) byte-length pairs and boundary values; der.parse/der.lax on valid encodings, every single-field perturbation (tags, lengths incl. 0xfe/0xff, padding, sign bit, r/s at 0,N-1,N,N+1, trailing bytes), pairs of perturbations, exhaustive short strings over {00,01,02,30,7f,80} + valid tail.",
            "trivial": lambda op, res: res == "err" and len(op.split()[1]) < 16},
    "C07": {"shared": ["Prims"], "rule": "bip39.mn for entropy lengths 0..40 (all-zero, all-one, random) x passphrases (empty, ASCII, decomposed non-ASCII, long); bip39.seed on generated sentences, every list word, non-words before/between/after list words, separators (tab, NBSP, U+3000, invalid UTF-8), wrong counts.",
            "trivial": lambda op, res: False},
    "C08": {"shared": ["Prims"], "gens": ["C08", "C13", "C04"], "rule": "xk histories with String->NewKeyFromString->derive again (op t), corrupted payloads with recomputed checksum (scalar 0/N/N+1, key byte 0/1/4/5, off-curve x, x>=P), wrong lengths; path grammar fuzz (empty components, +1, 1'', leading zeros, 2^31-1', 2^31', 2^32-1, 2^32, long numbers); dpath.fwd/back on boundary and random u64.",
            "trivial": lambda op, res: False},
    "C11": {"shared": ["Prims"], "gens": ["C11", "C10", "C01", "C01J"], "rule": "ecdh on key pairs incl. searched pairs with leading-zero shared x; ecies.enc with forced tape vs Lean encryptor (byte-exact), ecies.dec of Lean- and Go-made ciphertexts, every byte position x 3 bit patterns, truncation/extension, header edits, negated ephemeral Y, wrong keys incl. N-d; cfb.enc/dec for 16/24/32-byte keys.",
            "trivial": lambda op, res: False},
    "C12": {"shared": ["Prims"], "gens": ["C12", "C10", "C01", "C01J"], "rule": "compact.sign for keys x hashes x flags; compact.recover on honest signatures, every header byte, r/s range violations, tiny r with recid 2/3, r with no curve point, constructed infinity (R=kG, s=e/k), all other lengths 0..130, random.",
            "trivial": lambda op, res: op.startswith("compact.recover") and res == "err" and len(op.split()[1]) != 130},
    "C13": {"shared": ["Prims"], "rule": "b58.enc exhaustive <=1 byte and a stride of the 2-byte space (all in thorough), leading zeros x bodies, random to 300 bytes; b58.dec exhaustive <=2 alphabet chars, every byte value at every position of a valid string; b58.cenc/cdec valid, each checksum bit flipped, decoded lengths 0..8.",
            "trivial": lambda op, res: False},
    "C14": {"shared": ["Prims"], "gens": ["C14", "C13"], "rule": "wif.enc/dec over scalars with leading zeros x both flags x network bytes; each checksum bit, marker values 0/2/255, decoded lengths 28..46; addr for every version byte; hash helpers on padding-edge lengths vs independent Lean SHA-256/RIPEMD-160.",
            "trivial": lambda op, res: False},
    "C15": {"shared": ["Prims"], "gens": ["C15", "C08", "C04", "C01", "C03", "C05", "C06", "C11", "C12", "C13", "C14", "C20"], "rule": "all decoders on the negative generators of C05/C06/C08/C11/C12/C13/C14/C07 plus raw fuzz (lengths 0..300, structured prefixes), non-UTF-8 text, 4 nil/non-nil envelope combinations x malformed hex; a Go panic is reported as `panic` and never matches the model.",
            "trivial": lambda op, res: False},
    "C16": {"extra": [mem_sweep], "rule": "heap-model ops (mem.*) comparing the whole backing array after the call, plus a reflection sweep over every exported function with canary-filled slice windows (spare capacity 0..64), deep-copied big.Int/key/signature twins and a repeated call.",
            "trivial": lambda op, res: False},
    "C17": {"extra": [race_run], "rule": "once-discipline facts regenerated from the source and checked by `decide`; race-detector run of 2..64 goroutines over shared curve/keys/xkeys/codecs with first-use races, every result compared with the sequential one.",
            "trivial": lambda op, res: False},
    "C18": {"rule": "xk histories: exhaustive sequences (length <=3 quick, <=4 thorough) over {child normal, child hardened, neuter, path, setnet, zero, string-reparse} applied to every live key from private and public roots, plus random length-30 sequences; all live keys observed after every step.",
            "trivial": lambda op, res: False},
    "C19": {"shared": ["Prims"], "gens": ["C19", "C20"], "rule": "rng.key/seed/entropy, ecies.enc, cfb.enc, env.new with crypto/rand.Reader replaced by a logging tape: outputs must equal the Lean tape consumers byte for byte; failing reads; sign before/after RNG consumption.",
            "trivial": lambda op, res: False},
    "C20": {"shared": ["Prims"], "gens": ["C20", "C03", "C01J"], "rule": "(plus the C03 verify stream: IsValid inherits Signature.Verify) env.new on payloads from a JSON value grammar (quotes, backslashes, control and non-ASCII characters, <>&, nesting, numbers) incl. validity after marshal/unmarshal; env.valid over 3 mime types, every payload character altered, r+-1, s+-1, N-s twin, swapped key, 4 present/absent combinations x valid/malformed hex.",
            "trivial": lambda op, res: False},
    "C09": {"extra": [wrap_search], "gens": ["C09", "C10", "C01", "C01J"], "rule": "field.* ops through build-tag hooks on word vectors at 0/1/prime-word/mask boundaries and magnitude limits, vs the Lean definitions regenerated from bec/field.go.",
            "trivial": lambda op, res: False},
    "C10": {"gens": ["C10", "C01J", "C05"], "rule": "field.normalise/setbytes/putbytes on vectors with value P-1, P, P+1, 2^256-1, carry into bit 256, words at 0/max/prime-word boundaries, vs the regenerated Lean definitions.",
            "trivial": lambda op, res: False},
}
